// instrument generates, from /repo's current working tree, instrumented copies
// of the non-test sources of both packages plus generated in-package files,
// and an overlay.json for `go build -tags verif -overlay`. Nothing in /repo
// is touched. Insertions are textual splices at AST offsets on the original
// line, so line numbers are preserved.
//
//	instrument -repo /repo -out <dir> [-yields] [-tags purego]
package main

import (
	"encoding/json"
	"flag"
	"fmt"
	"go/ast"
	"go/build"
	"go/importer"
	"go/parser"
	"go/token"
	"go/types"
	"os"
	"path/filepath"
	"sort"
	"strings"
)

const fieldPath = "filippo.io/edwards25519/field"

type edit struct {
	off  int // byte offset in the file
	end  int // == off for pure insertions
	text string
	prio int // lower goes left among equal offsets
}

type site struct {
	File  string
	Line  int
	Func  string
	Hot   bool
	Write bool
	Sync  bool   // the statement performs a sync / sync/atomic operation
	Root  string // for write sites: the package-level variable written ("pkg.name")
}

type pkgInfo struct {
	dir   string
	name  string
	files []*ast.File
	paths []string
	pkg   *types.Package
	info  *types.Info
}

var (
	fset        = token.NewFileSet()
	sites       []site
	unsupported []string
)

func fail(format string, a ...interface{}) {
	fmt.Fprintf(os.Stderr, "instrument: "+format+"\n", a...)
	os.Exit(2)
}

type mapImporter struct {
	std   types.Importer
	extra map[string]*types.Package
}

func (m *mapImporter) Import(path string) (*types.Package, error) {
	if p := m.extra[path]; p != nil {
		return p, nil
	}
	return m.std.Import(path)
}

func load(dir string, tags []string, imp types.Importer, importPath string) *pkgInfo {
	ctx := build.Default
	ctx.BuildTags = append([]string{}, tags...)
	ctx.CgoEnabled = false
	bp, err := ctx.ImportDir(dir, 0)
	if err != nil {
		fail("%v", err)
	}
	pi := &pkgInfo{dir: dir, name: bp.Name}
	for _, f := range bp.GoFiles {
		p := filepath.Join(dir, f)
		af, err := parser.ParseFile(fset, p, nil, parser.ParseComments)
		if err != nil {
			fail("parse %s: %v", p, err)
		}
		pi.files = append(pi.files, af)
		pi.paths = append(pi.paths, p)
	}
	pi.info = &types.Info{
		Types:      map[ast.Expr]types.TypeAndValue{},
		Defs:       map[*ast.Ident]types.Object{},
		Uses:       map[*ast.Ident]types.Object{},
		Selections: map[*ast.SelectorExpr]*types.Selection{},
	}
	conf := types.Config{Importer: imp, Error: func(err error) {}}
	pkg, err := conf.Check(importPath, fset, pi.files, pi.info)
	if err != nil {
		fail("type-check %s: %v", importPath, err)
	}
	pi.pkg = pkg
	return pi
}

func isSyncType(t types.Type) bool {
	for {
		switch x := t.(type) {
		case *types.Pointer:
			t = x.Elem()
			continue
		case *types.Named:
			if x.Obj().Pkg() != nil {
				p := x.Obj().Pkg().Path()
				if p == "sync" || p == "sync/atomic" {
					return true
				}
			}
		}
		return false
	}
}

// rootVar returns the package-level variable an expression is rooted at.
func rootVar(pi *pkgInfo, e ast.Expr) *types.Var {
	for {
		switch x := e.(type) {
		case *ast.ParenExpr:
			e = x.X
		case *ast.SelectorExpr:
			// qualified identifier of another package?
			if id, ok := x.X.(*ast.Ident); ok {
				if _, isPkg := pi.info.Uses[id].(*types.PkgName); isPkg {
					if v, ok := pi.info.Uses[x.Sel].(*types.Var); ok && v.Parent() == v.Pkg().Scope() {
						return v
					}
					return nil
				}
			}
			e = x.X
		case *ast.IndexExpr:
			e = x.X
		case *ast.SliceExpr:
			e = x.X
		case *ast.StarExpr:
			e = x.X
		case *ast.UnaryExpr:
			e = x.X
		case *ast.Ident:
			if v, ok := pi.info.Uses[x].(*types.Var); ok && v.Pkg() != nil && v.Parent() == v.Pkg().Scope() {
				return v
			}
			return nil
		default:
			return nil
		}
	}
}

// shallow visits the expressions that belong to the statement itself, not to
// nested blocks or function literals.
func shallow(n ast.Node, f func(ast.Node) bool) {
	ast.Inspect(n, func(x ast.Node) bool {
		if x == nil {
			return false
		}
		if x != n {
			switch x.(type) {
			case *ast.BlockStmt, *ast.FuncLit, *ast.CaseClause, *ast.CommClause:
				return false
			}
		}
		return f(x)
	})
}

// stmtWritesPkgState: assignment to, address-of, inc/dec of, or pointer-method
// call on, an expression rooted at a package-level variable of non-sync type.
func stmtWritesPkgState(pi *pkgInfo, s ast.Stmt) bool {
	return stmtWrittenRoot(pi, s) != ""
}

// firstField returns ".f" when e is (rooted at) a selection of field f directly
// on the package-level struct variable v, "" otherwise.
func firstField(pi *pkgInfo, e ast.Expr, v *types.Var) string {
	name := ""
	for {
		switch x := e.(type) {
		case *ast.ParenExpr:
			e = x.X
		case *ast.IndexExpr:
			e = x.X
		case *ast.SliceExpr:
			e = x.X
		case *ast.StarExpr:
			e = x.X
		case *ast.UnaryExpr:
			e = x.X
		case *ast.SelectorExpr:
			if id, ok := x.X.(*ast.Ident); ok {
				if o, ok := pi.info.Uses[id].(*types.Var); ok && o == v {
					name = "." + x.Sel.Name
				}
			}
			e = x.X
		default:
			return name
		}
	}
}

func isBasic(t types.Type) bool {
	if t == nil {
		return false
	}
	_, ok := t.Underlying().(*types.Basic)
	return ok
}

// stmtWrittenRoot returns the package-level variable (as "pkg.name") that the
// statement itself writes: an assignment to, inc/dec of, or pointer-receiver
// method call on, an expression rooted at a package-level variable, where the
// written expression has a composite type (flags, counters and other scalars
// are bookkeeping, not constructed state) and is not of a sync type. Taking
// the address of a package-level variable is not a write.
func stmtWrittenRoot(pi *pkgInfo, s ast.Stmt) string {
	root := ""
	w := false
	atomicArg := map[*ast.UnaryExpr]bool{}
	// calls that sit in the condition of an if / for / switch are predicates
	inCond := map[*ast.CallExpr]bool{}
	markCond := func(e ast.Expr) {
		if e == nil {
			return
		}
		ast.Inspect(e, func(n ast.Node) bool {
			if c, ok := n.(*ast.CallExpr); ok {
				inCond[c] = true
			}
			return true
		})
	}
	switch st := s.(type) {
	case *ast.IfStmt:
		markCond(st.Cond)
	case *ast.ForStmt:
		markCond(st.Cond)
	case *ast.SwitchStmt:
		markCond(st.Tag)
	}
	exprType := func(e ast.Expr) types.Type {
		if tv, ok := pi.info.Types[e]; ok {
			return tv.Type
		}
		return nil
	}
	check := func(e ast.Expr) {
		if v := rootVar(pi, e); v != nil {
			t := exprType(e)
			if t != nil && (isSyncType(t) || isBasic(t)) {
				return
			}
			if isSyncType(v.Type()) {
				return
			}
			w = true
			if root == "" {
				root = pi.name + "." + v.Name() + firstField(pi, e, v)
			}
		}
	}
	shallow(s, func(n ast.Node) bool {
		switch x := n.(type) {
		case *ast.AssignStmt:
			if x.Tok != token.DEFINE {
				for _, l := range x.Lhs {
					check(l)
				}
			}
		case *ast.IncDecStmt:
			check(x.X)
		case *ast.CallExpr:
			// copy(dst, ...) and delete(m, k) write their first argument
			if id, ok := x.Fun.(*ast.Ident); ok && (id.Name == "copy" || id.Name == "delete") && len(x.Args) > 0 {
				if _, isBuiltin := pi.info.Uses[id].(*types.Builtin); isBuiltin {
					check(x.Args[0])
				}
			}
			if sel, ok := x.Fun.(*ast.SelectorExpr); ok {
				// publication of constructed state through an atomic pointer or value:
				// p.Store(t) / p.Swap(t) / p.CompareAndSwap(nil, t) on a package-level
				// atomic.Pointer[T] or atomic.Value counts as a write of that variable
				if sl := pi.info.Selections[sel]; sl != nil {
					if fo, ok := sl.Obj().(*types.Func); ok && fo.Pkg() != nil && fo.Pkg().Path() == "sync/atomic" &&
						(fo.Name() == "Store" || fo.Name() == "Swap" || fo.Name() == "CompareAndSwap") {
						ts := ""
						if t := exprType(sel.X); t != nil {
							ts = t.String()
						}
						if strings.Contains(ts, "atomic.Pointer[") || strings.HasSuffix(ts, "atomic.Value") {
							if v := rootVar(pi, sel.X); v != nil {
								w = true
								if root == "" {
									root = pi.name + "." + v.Name() + firstField(pi, sel.X, v)
								}
							}
						}
					}
				}
				if id, ok := sel.X.(*ast.Ident); ok {
					if pn, ok := pi.info.Uses[id].(*types.PkgName); ok && pn.Imported().Path() == "sync/atomic" {
						// synchronisation on a plain variable: not a package-state write
						for _, a := range x.Args {
							if u, ok := a.(*ast.UnaryExpr); ok {
								atomicArg[u] = true
							}
						}
					}
				}
				if s := pi.info.Selections[sel]; s != nil && s.Kind() == types.MethodVal && !inCond[x] {
					if fn, ok := s.Obj().(*types.Func); ok {
						sig := fn.Type().(*types.Signature)
						fromSync := fn.Pkg() != nil && (fn.Pkg().Path() == "sync" || fn.Pkg().Path() == "sync/atomic")
						if sig.Recv() != nil && !fromSync {
							if _, ptr := sig.Recv().Type().(*types.Pointer); ptr {
								check(sel.X)
							}
						}
					}
				}
			}
		}
		return true
	})
	_ = atomicArg
	if !w {
		return ""
	}
	return root
}

func funcIsHot(pi *pkgInfo, body ast.Node) bool {
	hot := false
	ast.Inspect(body, func(n ast.Node) bool {
		switch x := n.(type) {
		case *ast.Ident:
			if v, ok := pi.info.Uses[x].(*types.Var); ok && v.Pkg() != nil && v.Parent() == v.Pkg().Scope() {
				hot = true
			}
		case *ast.SelectorExpr:
			if s := pi.info.Selections[x]; s != nil {
				if fn, ok := s.Obj().(*types.Func); ok && fn.Pkg() != nil {
					if p := fn.Pkg().Path(); p == "sync" || p == "sync/atomic" {
						hot = true
					}
				}
			}
			if id, ok := x.X.(*ast.Ident); ok {
				if pn, ok := pi.info.Uses[id].(*types.PkgName); ok {
					if p := pn.Imported().Path(); p == "sync/atomic" {
						hot = true
					}
				}
			}
		}
		return !hot
	})
	return hot
}

func hasDirective(fd *ast.FuncDecl, d string) bool {
	if fd.Doc == nil {
		return false
	}
	for _, c := range fd.Doc.List {
		if strings.HasPrefix(c.Text, d) {
			return true
		}
	}
	return false
}

type fileWork struct {
	pi     *pkgInfo
	file   *ast.File
	path   string
	src    []byte
	edits  []edit
	yields bool
	// keepSync: a "var _ sync.Once" was appended because a rewrite may have removed the file's last use of the import
	keepSync bool
}

func (fw *fileWork) off(p token.Pos) int { return fset.Position(p).Offset }

// stmtIsSync: the statement itself (not nested blocks) calls into sync or sync/atomic.
func stmtIsSync(pi *pkgInfo, s ast.Node) bool {
	found := false
	shallow(s, func(n ast.Node) bool {
		if c, ok := n.(*ast.CallExpr); ok {
			if sel, ok := c.Fun.(*ast.SelectorExpr); ok {
				if sl := pi.info.Selections[sel]; sl != nil {
					if fo, ok := sl.Obj().(*types.Func); ok && fo.Pkg() != nil {
						if p := fo.Pkg().Path(); p == "sync" || p == "sync/atomic" {
							found = true
						}
					}
				} else if id, ok := sel.X.(*ast.Ident); ok {
					if pn, ok := pi.info.Uses[id].(*types.PkgName); ok {
						if p := pn.Imported().Path(); p == "sync" || p == "sync/atomic" {
							found = true
						}
					}
				}
			}
		}
		return !found
	})
	return found
}

func (fw *fileWork) addSite(pos token.Pos, fn string, hot, write bool) int {
	p := fset.Position(pos)
	rel, _ := filepath.Rel(filepath.Dir(fw.pi.dir), p.Filename)
	if fw.pi.name == "edwards25519" {
		rel = filepath.Base(p.Filename)
	}
	sites = append(sites, site{File: rel, Line: p.Line, Func: fn, Hot: hot, Write: write})
	return len(sites) - 1
}

func (fw *fileWork) instrumentBlock(b *ast.BlockStmt, fn string, hot bool, loopBody bool) {
	if !fw.yields {
		return
	}
	if len(b.List) == 0 && loopBody {
		id := fw.addSite(b.Lbrace, fn, hot, false)
		fw.edits = append(fw.edits, edit{off: fw.off(b.Lbrace) + 1, end: fw.off(b.Lbrace) + 1, text: fmt.Sprintf("verifSimYield(%d);", id), prio: 0})
	}
	fw.instrumentList(b.List, fn, hot)
}

func (fw *fileWork) instrumentList(list []ast.Stmt, fn string, hot bool) {
	for _, s := range list {
		wr := stmtWrittenRoot(fw.pi, s)
		id := fw.addSite(s.Pos(), fn, hot, wr != "")
		sites[id].Root = wr
		if stmtIsSync(fw.pi, s) {
			sites[id].Sync = true
		}
		o := fw.off(s.Pos())
		fw.edits = append(fw.edits, edit{off: o, end: o, text: fmt.Sprintf("verifSimYield(%d);", id), prio: 0})
	}
}

// walk descends through a function body, instrumenting statement lists.
func (fw *fileWork) walk(n ast.Node, fn string, hot bool) {
	litN := 0
	stmtExprs := map[*ast.CallExpr]bool{}
	var visit func(n ast.Node)
	visit = func(n ast.Node) {
		ast.Inspect(n, func(x ast.Node) bool {
			switch s := x.(type) {
			case *ast.FuncLit:
				litN++
				name := fmt.Sprintf("%s.func%d", fn, litN)
				h := hot || funcIsHot(fw.pi, s.Body)
				sub := &subWalker{fw: fw}
				sub.run(s.Body, name, h)
				return false
			case *ast.GoStmt:
				stmtExprs[s.Call] = true
				unsupported = append(unsupported, fmt.Sprintf("%s: go statement", fset.Position(s.Pos())))
			case *ast.SelectStmt:
				unsupported = append(unsupported, fmt.Sprintf("%s: select statement", fset.Position(s.Pos())))
			case *ast.SendStmt:
				unsupported = append(unsupported, fmt.Sprintf("%s: channel send", fset.Position(s.Pos())))
			case *ast.UnaryExpr:
				if s.Op == token.ARROW {
					unsupported = append(unsupported, fmt.Sprintf("%s: channel receive", fset.Position(s.Pos())))
				}
			case *ast.CallExpr:
				fw.rewriteSyncCall(s)
				fw.wrapAtomicCall(s, fn, stmtExprs)
			case *ast.ExprStmt:
				// a call that is the whole statement already has a yield in front of it
				if c, ok := s.X.(*ast.CallExpr); ok {
					stmtExprs[c] = true
				}
			case *ast.DeferStmt:
				// wrapping the deferred call would evaluate it at defer time
				stmtExprs[s.Call] = true
			}
			return true
		})
	}
	visit(n)
}

// wrapAtomicCall gives the scheduler a yield point between the atomic
// operations of one statement: a sync/atomic call that produces a value and is
// nested inside a larger expression - flag.Store(flag.Load()|bit),
// if atomic.LoadUint32(&x) == 0 && ... - is wrapped as verifSimAtom(site, call),
// which yields after the value has been obtained. Without it, a lost update
// between a Load and the Store that uses it sits inside a single statement and
// no statement-level schedule can reach it.
func (fw *fileWork) wrapAtomicCall(c *ast.CallExpr, fn string, whole map[*ast.CallExpr]bool) {
	if !fw.yields || whole[c] {
		return
	}
	isAtomic := false
	switch f := c.Fun.(type) {
	case *ast.SelectorExpr:
		if s := fw.pi.info.Selections[f]; s != nil {
			if fo, ok := s.Obj().(*types.Func); ok && fo.Pkg() != nil && fo.Pkg().Path() == "sync/atomic" {
				isAtomic = true
			}
		} else if id, ok := f.X.(*ast.Ident); ok {
			if pn, ok := fw.pi.info.Uses[id].(*types.PkgName); ok && pn.Imported().Path() == "sync/atomic" {
				isAtomic = true
			}
		}
	}
	if !isAtomic {
		return
	}
	tv, ok := fw.pi.info.Types[c]
	if !ok || tv.Type == nil {
		return
	}
	if t, isTuple := tv.Type.(*types.Tuple); isTuple || tv.IsVoid() {
		_ = t
		return
	}
	id := fw.addSite(c.Pos(), fn, true, false)
	sites[id].Sync = true
	fw.edits = append(fw.edits, edit{off: fw.off(c.Pos()), end: fw.off(c.Pos()), text: fmt.Sprintf("verifSimAtom(%d, ", id), prio: 2})
	fw.edits = append(fw.edits, edit{off: fw.off(c.End()), end: fw.off(c.End()), text: ")", prio: -1})
}

// subWalker instruments one function body (FuncDecl or FuncLit).
type subWalker struct {
	fw    *fileWork
	recFn func(ast.Node)
}

func (sw *subWalker) run(body *ast.BlockStmt, fn string, hot bool) {
	fw := sw.fw
	// instrument statement lists
	var rec func(n ast.Node)
	rec = func(n ast.Node) {
		switch s := n.(type) {
		case nil:
			return
		case *ast.BlockStmt:
			fw.instrumentBlock(s, fn, hot, false)
			for _, st := range s.List {
				rec(st)
			}
		case *ast.IfStmt:
			rec(s.Body)
			if s.Else != nil {
				rec(s.Else)
			}
		case *ast.ForStmt:
			sw.loopBody(s.Body, fn, hot)
		case *ast.RangeStmt:
			sw.loopBody(s.Body, fn, hot)
		case *ast.SwitchStmt:
			sw.clauses(s.Body, fn, hot, rec)
		case *ast.TypeSwitchStmt:
			sw.clauses(s.Body, fn, hot, rec)
		case *ast.SelectStmt:
			sw.clauses(s.Body, fn, hot, rec)
		case *ast.LabeledStmt:
			rec(s.Stmt)
		}
	}
	sw.recFn = rec
	rec(body)
	// function literals, sync calls and unsupported constructs
	fw.walk(body, fn, hot)
}

func (sw *subWalker) loopBody(b *ast.BlockStmt, fn string, hot bool) {
	sw.fw.instrumentBlock(b, fn, hot, true)
	for _, st := range b.List {
		sw.recFn(st)
	}
}

func (sw *subWalker) clauses(body *ast.BlockStmt, fn string, hot bool, rec func(ast.Node)) {
	for _, c := range body.List {
		switch cc := c.(type) {
		case *ast.CaseClause:
			if sw.fw.yields {
				sw.fw.instrumentList(cc.Body, fn, hot)
			}
			for _, st := range cc.Body {
				rec(st)
			}
		case *ast.CommClause:
			if sw.fw.yields {
				sw.fw.instrumentList(cc.Body, fn, hot)
			}
			for _, st := range cc.Body {
				rec(st)
			}
		}
	}
}

// rewritten remembers the selectors of sync calls that were routed through a
// gate; any other mention of a blocking sync primitive is unsupported.
var rewritten = map[*ast.SelectorExpr]bool{}

// auditSyncUses records, after a file has been walked, every selector that
// denotes a blocking sync method or constructor and was not rewritten as a
// direct call: method values (unlock := mu.Unlock), method expressions,
// sync.Locker / RLocker, sync.OnceFunc / OnceValue(s), sync.NewCond.
func (fw *fileWork) auditSyncUses() {
	blocking := map[string]bool{"Lock": true, "Unlock": true, "RLock": true, "RUnlock": true, "Do": true, "Wait": true,
		"TryLock": true, "TryRLock": true, "RLocker": true, "Signal": true, "Broadcast": true}
	ast.Inspect(fw.file, func(n ast.Node) bool {
		sel, ok := n.(*ast.SelectorExpr)
		if !ok || rewritten[sel] {
			return true
		}
		if s := fw.pi.info.Selections[sel]; s != nil {
			if fo, ok := s.Obj().(*types.Func); ok && fo.Pkg() != nil && fo.Pkg().Path() == "sync" && blocking[fo.Name()] {
				recv := ""
				if sig, ok := fo.Type().(*types.Signature); ok && sig.Recv() != nil {
					recv = sig.Recv().Type().String()
				}
				if !strings.Contains(recv, "sync.Pool") && !strings.Contains(recv, "sync.Map") {
					unsupported = append(unsupported, fmt.Sprintf("%s: use of %s that is not a plain call", fset.Position(sel.Pos()), fo.FullName()))
				}
			}
			return true
		}
		if id, ok := sel.X.(*ast.Ident); ok {
			if pn, ok := fw.pi.info.Uses[id].(*types.PkgName); ok && pn.Imported().Path() == "sync" {
				switch sel.Sel.Name {
				case "OnceFunc", "OnceValue", "OnceValues", "NewCond":
					// (a rewritten sync.OnceValue(f) call never gets here: see the rewritten[] test above)
					unsupported = append(unsupported, fmt.Sprintf("%s: sync.%s", fset.Position(sel.Pos()), sel.Sel.Name))
				}
			}
		}
		return true
	})
}

func (fw *fileWork) rewriteSyncCall(c *ast.CallExpr) {
	if !fw.yields {
		return
	}
	sel, ok := c.Fun.(*ast.SelectorExpr)
	if !ok {
		return
	}
	if id, ok := sel.X.(*ast.Ident); ok {
		if pn, ok := fw.pi.info.Uses[id].(*types.PkgName); ok && pn.Imported().Path() == "sync" {
			switch sel.Sel.Name {
			case "OnceFunc", "OnceValue", "OnceValues":
				// sync.OnceValue(f) -> verifSimOnceValue(f): same contract, built on a gated sync.Once
				rewritten[sel] = true
				fw.edits = append(fw.edits, edit{off: fw.off(sel.Pos()), end: fw.off(sel.End()), text: "verifSim" + sel.Sel.Name, prio: 1})
				if !fw.keepSync {
					fw.keepSync = true
					fw.edits = append(fw.edits, edit{off: len(fw.src), end: len(fw.src), text: "\nvar _ " + id.Name + ".Once\n", prio: 1})
				}
			}
			return
		}
	}
	s := fw.pi.info.Selections[sel]
	if s == nil || s.Kind() != types.MethodVal {
		return
	}
	fn, ok := s.Obj().(*types.Func)
	if !ok {
		return
	}
	full := fn.FullName()
	var helper string
	switch full {
	case "(*sync.Mutex).TryLock":
		helper = "verifSimMutexTryLock"
	case "(*sync.RWMutex).TryLock":
		helper = "verifSimRWTryLock"
	case "(*sync.RWMutex).TryRLock":
		helper = "verifSimRWTryRLock"
	case "(*sync.Once).Do":
		helper = "verifSimOnceDo"
	case "(*sync.Mutex).Lock":
		helper = "verifSimMutexLock"
	case "(*sync.Mutex).Unlock":
		helper = "verifSimMutexUnlock"
	case "(*sync.RWMutex).Lock":
		helper = "verifSimRWLock"
	case "(*sync.RWMutex).Unlock":
		helper = "verifSimRWUnlock"
	case "(*sync.RWMutex).RLock":
		helper = "verifSimRWRLock"
	case "(*sync.RWMutex).RUnlock":
		helper = "verifSimRWRUnlock"
	default:
		if fn.Pkg() != nil && fn.Pkg().Path() == "sync" {
			switch fn.Name() {
			case "Wait", "Signal", "Broadcast", "Add", "Done":
				unsupported = append(unsupported, fmt.Sprintf("%s: %s", fset.Position(c.Pos()), full))
			}
		}
		return
	}
	recvT := fw.pi.info.Types[sel.X].Type
	_, isPtr := recvT.(*types.Pointer)
	open := helper + "(&("
	closeX := ")"
	if len(s.Index()) > 1 {
		// promoted method of an embedded sync type: spell out the field path
		t := recvT
		var names []string
		okPath := true
		for _, ix := range s.Index()[:len(s.Index())-1] {
			if pt, ok := t.Underlying().(*types.Pointer); ok {
				t = pt.Elem()
			}
			st, ok := t.Underlying().(*types.Struct)
			if !ok || ix >= st.NumFields() {
				okPath = false
				break
			}
			names = append(names, st.Field(ix).Name())
			t = st.Field(ix).Type()
		}
		if !okPath {
			unsupported = append(unsupported, fmt.Sprintf("%s: promoted %s", fset.Position(c.Pos()), full))
			return
		}
		closeX = ")." + strings.Join(names, ".")
		if _, embeddedPtr := t.Underlying().(*types.Pointer); embeddedPtr {
			open = helper + "(("
		}
	} else if isPtr {
		open = helper + "(("
	}
	rewritten[sel] = true
	xs, xe := fw.off(sel.X.Pos()), fw.off(sel.X.End())
	fw.edits = append(fw.edits, edit{off: xs, end: xs, text: open, prio: 1})
	if len(c.Args) == 0 {
		// X.Lock() -> helper(&(X))
		fw.edits = append(fw.edits, edit{off: xe, end: fw.off(c.Rparen), text: closeX, prio: 1})
	} else {
		// X.Do(f) -> helper(&(X), f)
		fw.edits = append(fw.edits, edit{off: xe, end: fw.off(c.Lparen) + 1, text: closeX + ", ", prio: 1})
	}
}

func (fw *fileWork) apply() []byte {
	sort.SliceStable(fw.edits, func(i, j int) bool {
		if fw.edits[i].off != fw.edits[j].off {
			return fw.edits[i].off < fw.edits[j].off
		}
		return fw.edits[i].prio < fw.edits[j].prio
	})
	var out []byte
	pos := 0
	for _, e := range fw.edits {
		if e.off < pos {
			fail("overlapping edits in %s at offset %d", fw.path, e.off)
		}
		out = append(out, fw.src[pos:e.off]...)
		out = append(out, e.text...)
		pos = e.end
	}
	out = append(out, fw.src[pos:]...)
	return out
}

func main() {
	repo := flag.String("repo", "/repo", "repository root")
	out := flag.String("out", "", "output directory")
	yields := flag.Bool("yields", false, "insert yield points and sync gates (C18); without it only the package-state accessor is generated")
	tags := flag.String("tags", "", "extra build tags (comma separated), e.g. purego")
	flag.Parse()
	if *out == "" {
		fail("-out required")
	}
	os.MkdirAll(*out, 0o755)
	tagList := []string{"verif"}
	if *tags != "" {
		tagList = append(tagList, strings.Split(*tags, ",")...)
	}
	std := importer.ForCompiler(fset, "source", nil)
	fieldPI := load(filepath.Join(*repo, "field"), tagList, std, fieldPath)
	mainPI := load(*repo, tagList, &mapImporter{std: std, extra: map[string]*types.Package{fieldPath: fieldPI.pkg}}, "filippo.io/edwards25519")

	// packages of the same module other than the two instrumented ones would run
	// uninstrumented (their sync primitives ungated): not supported
	for _, pi := range []*pkgInfo{fieldPI, mainPI} {
		for _, imp := range pi.pkg.Imports() {
			if strings.HasPrefix(imp.Path(), "filippo.io/edwards25519/") && imp.Path() != fieldPath {
				unsupported = append(unsupported, fmt.Sprintf("package %s imports %s, which the instrumenter does not cover", pi.name, imp.Path()))
			}
		}
	}
	replace := map[string]string{}
	for _, pi := range []*pkgInfo{fieldPI, mainPI} {
		for i, f := range pi.files {
			src, err := os.ReadFile(pi.paths[i])
			if err != nil {
				fail("%v", err)
			}
			fw := &fileWork{pi: pi, file: f, path: pi.paths[i], src: src, yields: *yields}
			if *yields {
				for _, d := range f.Decls {
					fd, ok := d.(*ast.FuncDecl)
					if !ok || fd.Body == nil {
						continue
					}
					if hasDirective(fd, "//go:nosplit") {
						continue
					}
					name := fd.Name.Name
					if fd.Recv != nil && len(fd.Recv.List) > 0 {
						name = types.ExprString(fd.Recv.List[0].Type) + "." + name
					}
					hot := funcIsHot(pi, fd.Body)
					(&subWalker{fw: fw}).run(fd.Body, name, hot)
				}
				// package-level initialisers: function literals get yields, sync calls their gates
				for _, d := range f.Decls {
					gd, ok := d.(*ast.GenDecl)
					if !ok || gd.Tok != token.VAR {
						continue
					}
					for _, sp := range gd.Specs {
						vs, ok := sp.(*ast.ValueSpec)
						if !ok {
							continue
						}
						for k, v := range vs.Values {
							name := "init"
							if k < len(vs.Names) {
								name = "init." + vs.Names[k].Name
							}
							fw.walk(v, name, false)
						}
					}
				}
				fw.auditSyncUses()
			}
			if len(fw.edits) == 0 {
				continue
			}
			dst := filepath.Join(*out, pi.name+"_"+filepath.Base(pi.paths[i]))
			if err := os.WriteFile(dst, fw.apply(), 0o644); err != nil {
				fail("%v", err)
			}
			replace[pi.paths[i]] = dst
		}
	}
	// generated files
	fgen := filepath.Join(*out, "field_zz_verif_gen.go")
	mgen := filepath.Join(*out, "edwards25519_zz_verif_gen.go")
	os.WriteFile(fgen, []byte(genField(fieldPI, *yields)), 0o644)
	os.WriteFile(mgen, []byte(genMain(mainPI)), 0o644)
	replace[filepath.Join(*repo, "field", "zz_verif_gen.go")] = fgen
	replace[filepath.Join(*repo, "zz_verif_gen.go")] = mgen
	ov, _ := json.MarshalIndent(map[string]interface{}{"Replace": replace}, "", " ")
	if err := os.WriteFile(filepath.Join(*out, "overlay.json"), ov, 0o644); err != nil {
		fail("%v", err)
	}
	sj, _ := json.Marshal(map[string]interface{}{"sites": sites, "unsupported": unsupported})
	os.WriteFile(filepath.Join(*out, "sites.json"), sj, 0o644)
	nw := 0
	for _, s := range sites {
		if s.Write {
			nw++
		}
	}
	fmt.Printf("instrument: %d yield sites (%d package-state write sites) in %d files, %d unsupported constructs\n", len(sites), nw, len(replace)-2, len(unsupported))
}

func structHasSync(st *types.Struct) bool {
	for i := 0; i < st.NumFields(); i++ {
		if isSyncType(st.Field(i).Type()) {
			return true
		}
	}
	return false
}

// generatedNames are the package-level variables this tool generates itself.
var generatedNames = map[string]bool{"VerifSimYield": true, "VerifSimOnceDo": true, "VerifSimMutex": true, "VerifUnsupported": true,
	"VerifSites": true, "VerifPkgVarNames": true, "VerifPkgTruncations": true, "verifPath": true, "VerifSimTry": true}

// pkgVars lists the package-level variables of a package, sorted by name.
func pkgVars(pi *pkgInfo) []*types.Var {
	var vs []*types.Var
	sc := pi.pkg.Scope()
	for _, n := range sc.Names() {
		if v, ok := sc.Lookup(n).(*types.Var); ok {
			if generatedNames[n] || n == "_" {
				continue
			}
			vs = append(vs, v)
		}
	}
	return vs
}

func genSnapshot(pi *pkgInfo) string {
	var sb strings.Builder
	sb.WriteString(`// VerifPkgState returns a deep copy of every package-level variable: the raw
// bytes of scalar data, following pointers, slices, arrays, struct fields, maps
// (sorted by rendered key) and interfaces up to a fixed depth; values of sync
// and sync/atomic types are skipped. Generated from the type-checked scope.
func VerifPkgState() []byte {
	var verifOut__ []byte
`)
	for _, v := range pkgVars(pi) {
		fmt.Fprintf(&sb, "\tverifOut__ = append(verifOut__, %q...)\n\tverifOut__ = verifDeep(verifOut__, reflect.ValueOf(&%s).Elem(), 0)\n", v.Name()+"=", v.Name())
	}
	sb.WriteString("\treturn verifOut__\n}\n\n")
	// per-variable hashes (for the lazily-built-constant criterion of C18)
	sb.WriteString("// VerifPkgVarStates returns the rendering of each package-level variable separately.\nfunc VerifPkgVarStates() map[string][]byte {\n\tm := map[string][]byte{}\n")
	for _, v := range pkgVars(pi) {
		fmt.Fprintf(&sb, "\tm[%q] = verifDeep(nil, reflect.ValueOf(&%s).Elem(), 0)\n", pi.name+"."+v.Name(), v.Name())
		// struct variables also field by field (a table and a hit counter may share a struct)
		if st, ok := v.Type().Underlying().(*types.Struct); ok {
			for i := 0; i < st.NumFields(); i++ {
				f := st.Field(i)
				if f.Name() == "_" || !(f.Exported() || f.Pkg() == pi.pkg) {
					continue
				}
				fmt.Fprintf(&sb, "\tm[%q] = verifDeep(nil, reflect.ValueOf(&%s.%s).Elem(), 0)\n", pi.name+"."+v.Name()+"."+f.Name(), v.Name(), f.Name())
			}
		}
	}
	sb.WriteString("\treturn m\n}\n\n")
	sb.WriteString("// VerifPkgTruncations counts places where the rendering gave up (depth limit).\nvar VerifPkgTruncations int\n\n")
	sb.WriteString("// VerifPkgVarNames lists the variables covered by VerifPkgState.\nvar VerifPkgVarNames = []string{")
	for _, v := range pkgVars(pi) {
		fmt.Fprintf(&sb, "%q, ", v.Name())
	}
	sb.WriteString("}\n\n")
	sb.WriteString(`// verifPath holds the pointers currently being followed by verifDeep.
type verifKey struct {
	p uintptr
	t reflect.Type
}

var verifPath []verifKey

func verifIsSync(t reflect.Type) bool {
	p := t.PkgPath()
	return p == "sync" || p == "sync/atomic"
}

// verifDeep appends a canonical rendering of v. Unexported fields are read
// through their address; nothing is ever written.
func verifDeep(out []byte, v reflect.Value, depth int) []byte {
	if !v.IsValid() {
		return append(out, '0')
	}
	if depth > 24 {
		VerifPkgTruncations++
		return append(out, '?')
	}
	t := v.Type()
	if verifIsSync(t) {
		// state behind atomic.Pointer / atomic.Value / atomic integers is followed
		// through Load; sync.Map through Range (sorted); locks and Once are skipped
		if v.CanAddr() {
			pv := v
			if !pv.CanInterface() {
				pv = reflect.NewAt(t, unsafe.Pointer(v.UnsafeAddr())).Elem()
			}
			if m := pv.Addr().MethodByName("Load"); m.IsValid() && m.Type().NumIn() == 0 && m.Type().NumOut() == 1 {
				out = append(out, 'A')
				return verifDeep(out, m.Call(nil)[0], depth+1)
			}
			if m := pv.Addr().MethodByName("Range"); m.IsValid() && t.Name() == "Map" {
				var kvs []string
				pv.Addr().Interface().(*sync.Map).Range(func(k, val any) bool {
					kvs = append(kvs, string(verifDeep(nil, reflect.ValueOf(&k).Elem(), depth+1))+":"+string(verifDeep(nil, reflect.ValueOf(&val).Elem(), depth+1)))
					return true
				})
				sort.Strings(kvs)
				out = append(out, 'M')
				for _, e := range kvs {
					out = append(out, e...)
					out = append(out, ';')
				}
				return out
			}
		}
		return append(out, '~')
	}
	if v.CanAddr() && !v.CanInterface() {
		v = reflect.NewAt(t, unsafe.Pointer(v.UnsafeAddr())).Elem()
	}
	switch v.Kind() {
	case reflect.Ptr:
		if v.IsNil() {
			return append(out, 'n')
		}
		// a pointer back to something that is being rendered further up (doubly
		// linked lists, parent pointers): name the ancestor instead of unrolling
		// the cycle down to the depth limit
		key := verifKey{v.Pointer(), t}
		for i := len(verifPath) - 1; i >= 0; i-- {
			if verifPath[i] == key {
				return append(out, fmt.Sprintf("@%d", len(verifPath)-i)...)
			}
		}
		verifPath = append(verifPath, key)
		out = append(out, '*')
		out = verifDeep(out, v.Elem(), depth+1)
		verifPath = verifPath[:len(verifPath)-1]
		return out
	case reflect.Interface:
		if v.IsNil() {
			return append(out, 'n')
		}
		out = append(out, 'i')
		out = append(out, v.Elem().Type().String()...)
		e := v.Elem()
		if e.Kind() == reflect.Ptr || e.Kind() == reflect.Map || e.Kind() == reflect.Slice {
			return verifDeep(out, e, depth+1)
		}
		// a non-pointer dynamic value: copy it into addressable memory and render it
		c := reflect.New(e.Type()).Elem()
		c.Set(e)
		return verifDeep(out, c, depth+1)
	case reflect.Struct:
		out = append(out, '{')
		for i := 0; i < v.NumField(); i++ {
			if t.Field(i).Name == "_" {
				continue
			}
			out = verifDeep(out, v.Field(i), depth+1)
			out = append(out, ',')
		}
		return append(out, '}')
	case reflect.Array:
		out = append(out, '[')
		for i := 0; i < v.Len(); i++ {
			out = verifDeep(out, v.Index(i), depth+1)
		}
		return append(out, ']')
	case reflect.Slice:
		if v.IsNil() {
			return append(out, 'n')
		}
		out = append(out, fmt.Sprintf("s%d[", v.Len())...)
		// the whole backing array up to capacity is state too
		full := v.Slice3(0, v.Cap(), v.Cap())
		for i := 0; i < full.Len(); i++ {
			out = verifDeep(out, full.Index(i), depth+1)
		}
		return append(out, ']')
	case reflect.Map:
		if v.IsNil() {
			return append(out, 'n')
		}
		type kv struct {
			k string
			v reflect.Value
		}
		var kvs []kv
		it := v.MapRange()
		for it.Next() {
			kvs = append(kvs, kv{string(verifDeep(nil, it.Key(), depth+1)), it.Value()})
		}
		sort.Slice(kvs, func(i, j int) bool { return kvs[i].k < kvs[j].k })
		out = append(out, fmt.Sprintf("m%d{", len(kvs))...)
		for _, e := range kvs {
			out = append(out, e.k...)
			out = append(out, ':')
			out = verifDeep(out, e.v, depth+1)
			out = append(out, ';')
		}
		return append(out, '}')
	case reflect.Func, reflect.Chan, reflect.UnsafePointer:
		if v.IsNil() {
			return append(out, 'n')
		}
		return append(out, 'f')
	case reflect.String:
		return append(out, v.String()...)
	case reflect.Bool:
		if v.Bool() {
			return append(out, 'T')
		}
		return append(out, 'F')
	case reflect.Int, reflect.Int8, reflect.Int16, reflect.Int32, reflect.Int64:
		return append(strconv.AppendInt(out, v.Int(), 16), '.')
	case reflect.Uint, reflect.Uint8, reflect.Uint16, reflect.Uint32, reflect.Uint64, reflect.Uintptr:
		return append(strconv.AppendUint(out, v.Uint(), 16), '.')
	default:
		return append(out, fmt.Sprintf("%v.", v)...)
	}
}
`)
	return sb.String()
}

func genField(pi *pkgInfo, yields bool) string {
	var sb strings.Builder
	sb.WriteString("//go:build verif\n\n// Code generated by /verif/bin/instrument. DO NOT EDIT.\n\npackage field\n\nimport (\n\t\"fmt\"\n\t\"reflect\"\n\t\"sort\"\n\t\"strconv\"\n\t\"sync\"\n\t\"unsafe\"\n)\n\n")
	sb.WriteString(`// Hooks set by the simulator. All nil by default: behaviour is unchanged.
var (
	VerifSimYield   func(site int)
	VerifSimOnceDo  func(o *sync.Once, f func())
	VerifSimMutex   func(m unsafe.Pointer, kind int) // kind: 0 Lock, 1 Unlock, 2 RLock, 3 RUnlock
	// VerifSimTry decides TryLock (kind 0) / TryRLock (kind 2) in the scheduler's
	// model of the mutex: 0 refused, 1 granted (the real call must then succeed), 2 scheduler inactive.
	VerifSimTry func(m unsafe.Pointer, kind int) int
)

type VerifSite struct {
	File  string
	Line  int
	Func  string
	Hot   bool
	Write bool
	Sync  bool
	Root  string
}

//go:norace
func verifSimYield(site int) {
	if h := VerifSimYield; h != nil {
		h(site)
	}
}

// verifSimAtom yields after an atomic operation has produced its value.
func verifSimAtom[T any](site int, v T) T {
	verifSimYield(site)
	return v
}

func verifSimOnceDo(o *sync.Once, f func()) {
	if h := VerifSimOnceDo; h != nil {
		h(o, f)
		return
	}
	o.Do(f)
}

func verifSimMutexLock(m *sync.Mutex) {
	if h := VerifSimMutex; h != nil {
		h(unsafe.Pointer(m), 0)
	}
	m.Lock()
}

func verifSimMutexUnlock(m *sync.Mutex) {
	m.Unlock()
	if h := VerifSimMutex; h != nil {
		h(unsafe.Pointer(m), 1)
	}
}

func verifSimRWLock(m *sync.RWMutex) {
	if h := VerifSimMutex; h != nil {
		h(unsafe.Pointer(m), 0)
	}
	m.Lock()
}

func verifSimRWUnlock(m *sync.RWMutex) {
	m.Unlock()
	if h := VerifSimMutex; h != nil {
		h(unsafe.Pointer(m), 1)
	}
}

func verifSimRWRLock(m *sync.RWMutex) {
	if h := VerifSimMutex; h != nil {
		h(unsafe.Pointer(m), 2)
	}
	m.RLock()
}

func verifSimRWRUnlock(m *sync.RWMutex) {
	m.RUnlock()
	if h := VerifSimMutex; h != nil {
		h(unsafe.Pointer(m), 3)
	}
}

func verifSimTry(m unsafe.Pointer, kind int, real func() bool) bool {
	h := VerifSimTry
	if h == nil {
		return real()
	}
	switch h(m, kind) {
	case 0:
		return false
	case 1:
		if !real() {
			panic("verif: the scheduler's model of a mutex and the real mutex disagree")
		}
		return true
	}
	return real()
}

func verifSimMutexTryLock(m *sync.Mutex) bool { return verifSimTry(unsafe.Pointer(m), 0, m.TryLock) }
func verifSimRWTryLock(m *sync.RWMutex) bool  { return verifSimTry(unsafe.Pointer(m), 0, m.TryLock) }
func verifSimRWTryRLock(m *sync.RWMutex) bool { return verifSimTry(unsafe.Pointer(m), 2, m.TryRLock) }

// verifSimOnceFunc / OnceValue / OnceValues stand in for the sync functions of the
// same name, built on a gated sync.Once so that the scheduler controls blocking.
// (A panic in f is not re-raised by later calls, unlike the originals.)
func verifSimOnceFunc(f func()) func() {
	var once sync.Once
	return func() { verifSimOnceDo(&once, f) }
}

func verifSimOnceValue[T any](f func() T) func() T {
	var once sync.Once
	var r T
	return func() T {
		verifSimOnceDo(&once, func() { r = f() })
		return r
	}
}

func verifSimOnceValues[T1, T2 any](f func() (T1, T2)) func() (T1, T2) {
	var once sync.Once
	var r1 T1
	var r2 T2
	return func() (T1, T2) {
		verifSimOnceDo(&once, func() { r1, r2 = f() })
		return r1, r2
	}
}

`)
	fmt.Fprintf(&sb, "// VerifInstrumented reports whether yield points were spliced in.\nconst VerifInstrumented = %v\n\n", yields)
	sb.WriteString("// VerifUnsupported lists constructs the scheduler cannot control.\nvar VerifUnsupported = []string{")
	for _, u := range unsupported {
		fmt.Fprintf(&sb, "%q, ", u)
	}
	sb.WriteString("}\n\n")
	sb.WriteString("// VerifSites maps site ids to source positions.\nvar VerifSites = []VerifSite{\n")
	for _, s := range sites {
		fmt.Fprintf(&sb, "\t{%q, %d, %q, %v, %v, %v, %q},\n", s.File, s.Line, s.Func, s.Hot, s.Write, s.Sync, s.Root)
	}
	sb.WriteString("}\n\n")
	sb.WriteString(genSnapshot(pi))
	return sb.String()
}

func genMain(pi *pkgInfo) string {
	var sb strings.Builder
	sb.WriteString("//go:build verif\n\n// Code generated by /verif/bin/instrument. DO NOT EDIT.\n\npackage edwards25519\n\nimport (\n\t\"fmt\"\n\t\"reflect\"\n\t\"sort\"\n\t\"strconv\"\n\t\"sync\"\n\t\"unsafe\"\n\n\t\"filippo.io/edwards25519/field\"\n)\n\n")
	sb.WriteString(`//go:norace
func verifSimYield(site int) {
	if h := field.VerifSimYield; h != nil {
		h(site)
	}
}

// verifSimAtom yields after an atomic operation has produced its value.
func verifSimAtom[T any](site int, v T) T {
	verifSimYield(site)
	return v
}

func verifSimOnceDo(o *sync.Once, f func()) {
	if h := field.VerifSimOnceDo; h != nil {
		h(o, f)
		return
	}
	o.Do(f)
}

func verifSimMutexLock(m *sync.Mutex) {
	if h := field.VerifSimMutex; h != nil {
		h(unsafe.Pointer(m), 0)
	}
	m.Lock()
}

func verifSimMutexUnlock(m *sync.Mutex) {
	m.Unlock()
	if h := field.VerifSimMutex; h != nil {
		h(unsafe.Pointer(m), 1)
	}
}

func verifSimRWLock(m *sync.RWMutex) {
	if h := field.VerifSimMutex; h != nil {
		h(unsafe.Pointer(m), 0)
	}
	m.Lock()
}

func verifSimRWUnlock(m *sync.RWMutex) {
	m.Unlock()
	if h := field.VerifSimMutex; h != nil {
		h(unsafe.Pointer(m), 1)
	}
}

func verifSimRWRLock(m *sync.RWMutex) {
	if h := field.VerifSimMutex; h != nil {
		h(unsafe.Pointer(m), 2)
	}
	m.RLock()
}

func verifSimRWRUnlock(m *sync.RWMutex) {
	m.RUnlock()
	if h := field.VerifSimMutex; h != nil {
		h(unsafe.Pointer(m), 3)
	}
}

func verifSimTry(m unsafe.Pointer, kind int, real func() bool) bool {
	h := field.VerifSimTry
	if h == nil {
		return real()
	}
	switch h(m, kind) {
	case 0:
		return false
	case 1:
		if !real() {
			panic("verif: the scheduler's model of a mutex and the real mutex disagree")
		}
		return true
	}
	return real()
}

func verifSimMutexTryLock(m *sync.Mutex) bool { return verifSimTry(unsafe.Pointer(m), 0, m.TryLock) }
func verifSimRWTryLock(m *sync.RWMutex) bool  { return verifSimTry(unsafe.Pointer(m), 0, m.TryLock) }
func verifSimRWTryRLock(m *sync.RWMutex) bool { return verifSimTry(unsafe.Pointer(m), 2, m.TryRLock) }

// verifSimOnceFunc / OnceValue / OnceValues stand in for the sync functions of the
// same name, built on a gated sync.Once so that the scheduler controls blocking.
// (A panic in f is not re-raised by later calls, unlike the originals.)
func verifSimOnceFunc(f func()) func() {
	var once sync.Once
	return func() { verifSimOnceDo(&once, f) }
}

func verifSimOnceValue[T any](f func() T) func() T {
	var once sync.Once
	var r T
	return func() T {
		verifSimOnceDo(&once, func() { r = f() })
		return r
	}
}

func verifSimOnceValues[T1, T2 any](f func() (T1, T2)) func() (T1, T2) {
	var once sync.Once
	var r1 T1
	var r2 T2
	return func() (T1, T2) {
		verifSimOnceDo(&once, func() { r1, r2 = f() })
		return r1, r2
	}
}

var _ = sync.Once{}
var _ field.Element

`)
	sb.WriteString(genSnapshot(pi))
	return sb.String()
}
