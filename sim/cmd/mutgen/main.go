// mutgen enumerates syntactic mutants of the library's non-test Go sources
// (used by tools/mutants/automut.py to measure what the checks catch beyond
// the hand-seeded changes). Output: JSON list of {id, file, start, end, new, op, line, func}.
package main

import (
	"encoding/json"
	"flag"
	"fmt"
	"go/ast"
	"go/parser"
	"go/token"
	"os"
	"path/filepath"
	"strconv"
	"strings"
)

type Mut struct {
	ID    int    `json:"id"`
	File  string `json:"file"`
	Start int    `json:"start"`
	End   int    `json:"end"`
	New   string `json:"new"`
	Op    string `json:"op"`
	Line  int    `json:"line"`
	Func  string `json:"func"`
	Old   string `json:"old"`
}

var (
	fset = token.NewFileSet()
	muts []Mut
)

func add(file string, src []byte, s, e token.Pos, nw, op, fn string) {
	so, eo := fset.Position(s).Offset, fset.Position(e).Offset
	old := string(src[so:eo])
	if old == nw {
		return
	}
	muts = append(muts, Mut{ID: len(muts), File: file, Start: so, End: eo, New: nw, Op: op, Line: fset.Position(s).Line, Func: fn, Old: old})
}

var binSwap = map[token.Token][]string{
	token.ADD: {"-"}, token.SUB: {"+"}, token.MUL: {"+"}, token.SHL: {">>"}, token.SHR: {"<<"},
	token.AND: {"|"}, token.OR: {"&"}, token.XOR: {"&", "|"}, token.AND_NOT: {"&"},
	token.EQL: {"!="}, token.NEQ: {"=="}, token.LSS: {"<=", ">"}, token.LEQ: {"<"}, token.GTR: {">=", "<"}, token.GEQ: {">"},
	token.LAND: {"||"}, token.LOR: {"&&"},
}

var assignSwap = map[token.Token]string{
	token.ADD_ASSIGN: "-=", token.SUB_ASSIGN: "+=", token.OR_ASSIGN: "&=", token.AND_ASSIGN: "|=", token.XOR_ASSIGN: "|=",
	token.SHL_ASSIGN: ">>=", token.SHR_ASSIGN: "<<=",
}

func main() {
	repo := flag.String("repo", "/repo", "repository")
	skip := flag.String("skip", "scalar_fiat.go,doc.go,fe_arm64.go,fe_arm64_noasm.go", "files to skip")
	flag.Parse()
	skipSet := map[string]bool{}
	for _, s := range strings.Split(*skip, ",") {
		skipSet[s] = true
	}
	var files []string
	for _, d := range []string{*repo, filepath.Join(*repo, "field")} {
		m, _ := filepath.Glob(filepath.Join(d, "*.go"))
		for _, f := range m {
			if strings.HasSuffix(f, "_test.go") || skipSet[filepath.Base(f)] {
				continue
			}
			files = append(files, f)
		}
	}
	for _, f := range files {
		src, err := os.ReadFile(f)
		if err != nil {
			continue
		}
		af, err := parser.ParseFile(fset, f, src, 0)
		if err != nil {
			fmt.Fprintln(os.Stderr, err)
			continue
		}
		rel, _ := filepath.Rel(*repo, f)
		for _, d := range af.Decls {
			fd, ok := d.(*ast.FuncDecl)
			if !ok || fd.Body == nil {
				// package-level var initialisers: literals only
				ast.Inspect(d, func(n ast.Node) bool {
					if bl, ok := n.(*ast.BasicLit); ok && bl.Kind == token.INT {
						mutInt(rel, src, bl, "<pkg-level>")
					}
					return true
				})
				continue
			}
			fn := fd.Name.Name
			ast.Inspect(fd.Body, func(n ast.Node) bool {
				switch x := n.(type) {
				case *ast.BinaryExpr:
					for _, nw := range binSwap[x.Op] {
						add(rel, src, x.OpPos, x.OpPos+token.Pos(len(x.Op.String())), nw, "binop "+x.Op.String()+"->"+nw, fn)
					}
				case *ast.AssignStmt:
					if nw, ok := assignSwap[x.Tok]; ok {
						add(rel, src, x.TokPos, x.TokPos+token.Pos(len(x.Tok.String())), nw, "assignop", fn)
					}
				case *ast.BasicLit:
					if x.Kind == token.INT {
						mutInt(rel, src, x, fn)
					}
				case *ast.IfStmt:
					add(rel, src, x.Cond.Pos(), x.Cond.End(), "!("+string(src[fset.Position(x.Cond.Pos()).Offset:fset.Position(x.Cond.End()).Offset])+")", "negate-cond", fn)
				case *ast.ExprStmt:
					// delete a call statement
					if _, ok := x.X.(*ast.CallExpr); ok {
						add(rel, src, x.Pos(), x.End(), "_ = 0", "delete-call-stmt", fn)
					}
				case *ast.CallExpr:
					// swap the first two arguments when both are simple and same shape
					if len(x.Args) >= 2 {
						a, b := x.Args[0], x.Args[1]
						as := string(src[fset.Position(a.Pos()).Offset:fset.Position(a.End()).Offset])
						bs := string(src[fset.Position(b.Pos()).Offset:fset.Position(b.End()).Offset])
						if as != bs && shape(a) == shape(b) && shape(a) != "" {
							add(rel, src, a.Pos(), b.End(), bs+", "+as, "swap-args", fn)
						}
					}
					// replace a field selector argument &p.X by a sibling
					for _, a := range x.Args {
						if u, ok := a.(*ast.UnaryExpr); ok && u.Op == token.AND {
							if se, ok := u.X.(*ast.SelectorExpr); ok {
								if sib := sibling(se.Sel.Name); sib != "" {
									add(rel, src, se.Sel.Pos(), se.Sel.End(), sib, "sibling-field", fn)
								}
							}
						}
					}
				case *ast.IncDecStmt:
					if x.Tok == token.INC {
						add(rel, src, x.TokPos, x.TokPos+2, "--", "incdec", fn)
					}
				case *ast.ReturnStmt:
				}
				return true
			})
		}
	}
	json.NewEncoder(os.Stdout).Encode(muts)
}

func shape(e ast.Expr) string {
	switch x := e.(type) {
	case *ast.Ident:
		return "id"
	case *ast.UnaryExpr:
		if x.Op == token.AND {
			return "&" + shape(x.X)
		}
	case *ast.SelectorExpr:
		return "sel"
	case *ast.IndexExpr:
		return "idx"
	}
	return ""
}

var sibs = map[string]string{
	"X": "Y", "Y": "X", "Z": "T", "T": "Z", "x": "y", "y": "x", "z": "t", "t": "z",
	"YplusX": "YminusX", "YminusX": "YplusX", "T2d": "Z",
	"l0": "l1", "l1": "l2", "l2": "l3", "l3": "l4", "l4": "l0",
}

func sibling(n string) string { return sibs[n] }

func mutInt(file string, src []byte, bl *ast.BasicLit, fn string) {
	v, err := strconv.ParseUint(strings.ReplaceAll(bl.Value, "_", ""), 0, 64)
	if err != nil {
		return
	}
	fmtv := func(x uint64) string {
		if strings.HasPrefix(bl.Value, "0x") || strings.HasPrefix(bl.Value, "0X") {
			return fmt.Sprintf("0x%x", x)
		}
		return strconv.FormatUint(x, 10)
	}
	add(file, src, bl.Pos(), bl.End(), fmtv(v+1), "int+1", fn)
	if v > 0 {
		add(file, src, bl.Pos(), bl.End(), fmtv(v-1), "int-1", fn)
	}
}
