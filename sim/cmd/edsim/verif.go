//go:build verif

package main

import (
	"bytes"
	"crypto/sha256"
	"encoding/hex"
	"encoding/json"
	"flag"
	"fmt"
	"math"
	"math/big"
	"os"
	"os/exec"
	"sort"
	"strconv"
	"strings"
	"time"

	"filippo.io/edwards25519"
	"filippo.io/edwards25519/field"

	"verifsim/alpha"
	"verifsim/hist"
	"verifsim/prng"
	"verifsim/ref"
	"verifsim/sched"
)

const buildSuffix = "+verif"

// pkgSnapHook: raw snapshot of every package-level variable of both packages.
func pkgSnapHook() func() []byte {
	return func() []byte {
		return append(edwards25519.VerifPkgState(), field.VerifPkgState()...)
	}
}

func extraCommand(name string, args []string) bool {
	switch name {
	case "sched":
		cmdSched(args)
	case "schedref":
		cmdSchedRef()
	case "sitecov":
		cmdSiteCov(args)
	case "sites":
		fmt.Printf("%d sites instrumented=%v unsupported=%v\n", len(field.VerifSites), field.VerifInstrumented, field.VerifUnsupported)
	default:
		return false
	}
	return true
}

// ---- C18: task programs ----

// TOp is one operation of a task program. Point operands: index >= 0 refers
// to the shared read-only pool, -1 to the task's own previous result.
type TOp struct {
	Kind string `json:"kind"`
	S    []int  `json:"s,omitempty"`
	P    []int  `json:"p,omitempty"`
}

type SchedTrace struct {
	Kind     string     `json:"kind"` // "sched"
	Prop     string     `json:"property"`
	Seed     uint64     `json:"seed"`
	RunIdx   uint64     `json:"run_index"`
	Scalars  []hist.Hex `json:"shared_scalars"` // canonical encodings
	Points   []hist.Hex `json:"shared_points"`  // point encodings
	Programs [][]TOp    `json:"programs"`
	// Pre: operations executed sequentially, in the same process, before the
	// concurrent phase starts (the process is then no longer cold: call-count
	// thresholds, warm caches and already-built tables meet the concurrent callers)
	Pre       []TOp            `json:"pre_roll,omitempty"`
	First     int              `json:"first_task"`
	Decisions []sched.Decision `json:"decisions"`
	Policy    string           `json:"policy,omitempty"`
	Race      bool             `json:"race,omitempty"`
	Violation *hist.Violation  `json:"violation,omitempty"`
	Note      string           `json:"note,omitempty"`
}

type SchedOut struct {
	Idx        uint64           `json:"run_index"`
	Seed       uint64           `json:"seed"`
	Hash       string           `json:"hash"`
	SwitchHash string           `json:"switch_hash"`
	Violation  *hist.Violation  `json:"violation,omitempty"`
	Trace      *SchedTrace      `json:"trace,omitempty"`
	Stats      map[string]int64 `json:"stats"`
	// SwitchSites: distinct yield sites at which a context switch happened.
	SwitchSites []int  `json:"switch_sites,omitempty"`
	SiteTotals  [3]int `json:"site_totals"` // all, hot, sync
}

var opMenu = []string{"ScalarBaseMult", "VarTimeDoubleScalarBaseMult", "ScalarMult", "MultiScalarMult", "VarTimeMultiScalarMult",
	"Add", "BytesRoundTrip", "NewGenerator", "ScalarInvert", "MultByCofactor",
	"Encode", "ScalarArith", "FieldArith", "NegateSubtract", "CoordsRoundTrip", "Equal",
	"SetterErrors", "ScalarSweep", "ElementSweep", "MultiMany", "SharedElements", "SharedBytes", "SharedSlices"}

func genSchedTrace(base, idx uint64, small bool) (*SchedTrace, sched.Policy, uint64) {
	seed := prng.Derive(base, "C18", idx)
	rng := prng.New(seed)
	t := &SchedTrace{Kind: "sched", Prop: "C18", Seed: base, RunIdx: idx}
	// shared pools
	ns, np := 3+rng.Intn(3), 3+rng.Intn(3)
	for i := 0; i < ns; i++ {
		v := alpha.FromLE(rng.Bytes(40))
		v.Mod(v, alpha.L)
		if rng.Bool(0.2) {
			v.SetInt64(int64(rng.Intn(20)))
		}
		e := alpha.LE32(v)
		t.Scalars = append(t.Scalars, e[:])
	}
	// (no library call here: the harness must not perform first use of any part of
	// the API before the concurrent phase)
	bp := ref.Base()
	g := alpha.Encode(bp.X, bp.Y)
	t.Points = append(t.Points, g[:])
	for len(t.Points) < np {
		b := rng.Bytes(32)
		sign := uint(b[31] >> 7)
		b[31] &= 0x7f
		y := alpha.FromLE(b)
		y.Mod(y, alpha.P)
		x, ok := ref.RecoverX(y, sign)
		if !ok {
			continue
		}
		e := alpha.Encode(x, y)
		t.Points = append(t.Points, e[:])
	}
	nt := 2 + rng.Intn(7)
	if small {
		nt = 2 + rng.Intn(3)
	}
	w := []int{10, 8, 2, 2, 2, 1, 1, 1, 1, 1, 1, 1, 1, 1, 1, 1, 1, 1, 1, 1, 1, 1, 1}
	longProgs := rng.Bool(0.15)
	// crowd: many more concurrent callers than any fixed number of preallocated
	// slots, one operation each, of one or two kinds
	crowd := 0
	if !small && !longProgs && rng.Bool(0.05) {
		crowd = []int{17, 20, 33, 40, 65, 129}[rng.Intn(6)]
	}
	if longProgs || crowd > 0 || rng.Bool(0.3) {
		// swarm: a run that is not about the lazy tables but about overlap inside a few
		// randomly chosen operations (shared scratch state shows only when two calls of
		// the same operation overlap)
		for i := range w {
			w[i] = 0
		}
		for k := 0; k < 1+rng.Intn(3); k++ {
			w[rng.Intn(len(w))] += 1 + rng.Intn(4)
		}
	}
	if longProgs {
		// few tasks, many operations each: state left behind by one call (pooled
		// scratch, caches) meets overlapping later calls
		nt = 2 + rng.Intn(3)
	}
	if crowd > 0 {
		nt = crowd
	}
	for i := 0; i < nt; i++ {
		nops := 1 + rng.Intn(3)
		if small {
			nops = 1 + rng.Intn(2)
		}
		if longProgs {
			nops = 5 + rng.Intn(8)
		}
		if crowd > 0 {
			nops = 1
		}
		var prog []TOp
		for j := 0; j < nops; j++ {
			k := opMenu[rng.Weighted(w)]
			if crowd > 0 && k == "MultiMany" {
				// the largest crowds stay affordable under the instrumented portable
				// build: no 13-20 term double calls, short term lists (below)
				k = "MultiScalarMult"
			}
			op := TOp{Kind: k}
			pick := func() int {
				if j > 0 && rng.Bool(0.3) {
					return -1
				}
				return rng.Intn(np)
			}
			switch k {
			case "ScalarBaseMult", "ScalarInvert":
				op.S = []int{rng.Intn(ns)}
			case "VarTimeDoubleScalarBaseMult":
				op.S = []int{rng.Intn(ns), rng.Intn(ns)}
				op.P = []int{pick()}
			case "ScalarMult":
				op.S = []int{rng.Intn(ns)}
				op.P = []int{pick()}
			case "MultiScalarMult", "VarTimeMultiScalarMult":
				// the term count varies from call to call (size-dependent paths, pooled scratch)
				n := []int{0, 1, 2, 2, 2, 3, 5, 9, 13, 20}[rng.Intn(10)]
				if crowd >= 33 && n > 8 {
					n = 8
				}
				op.S, op.P = []int{}, []int{}
				for k := 0; k < n; k++ {
					op.S = append(op.S, rng.Intn(ns))
					op.P = append(op.P, pick())
				}
			case "Add":
				op.P = []int{pick(), pick()}
			case "BytesRoundTrip", "MultByCofactor", "Encode", "CoordsRoundTrip":
				op.P = []int{pick()}
			case "NegateSubtract", "Equal":
				op.P = []int{pick(), pick()}
			case "SharedElements":
				op.P = []int{rng.Intn(np), rng.Intn(np)}
			case "ScalarArith", "ScalarSweep":
				op.S = []int{rng.Intn(ns), rng.Intn(ns), rng.Intn(ns)}
			case "SetterErrors", "ElementSweep":
				op.P = []int{pick()}
				op.S = []int{rng.Intn(ns)}
			case "MultiMany":
				n := 13 + rng.Intn(8)
				for k := 0; k < n; k++ {
					op.S = append(op.S, rng.Intn(ns))
					op.P = append(op.P, rng.Intn(np))
				}
			case "FieldArith":
				op.P = []int{pick()}
			}
			prog = append(prog, op)
		}
		t.Programs = append(t.Programs, prog)
	}
	// scheduling policy
	var pol sched.Policy
	switch rng.Intn(4) {
	case 1:
		// switches only at synchronisation operations: coarse schedules in which a task
		// runs undisturbed between the sync/atomic operations of the library
		pol.PSync = []float64{0.5, 0.25}[rng.Intn(2)]
		pol.PCold = []float64{0, 0, 1e-5}[rng.Intn(3)]
		t.Policy = fmt.Sprintf("sync-focus(sync=%g,cold=%g)", pol.PSync, pol.PCold)
	case 0:
		d := 1 + rng.Intn(3)
		for i := 0; i < d; i++ {
			var o uint64
			if rng.Bool(0.5) {
				o = 1 + uint64(rng.Intn(150000))
			} else {
				o = uint64(math.Exp(rng.Float64() * math.Log(3e6)))
			}
			pol.PCT = append(pol.PCT, o)
		}
		sort.Slice(pol.PCT, func(i, j int) bool { return pol.PCT[i] < pol.PCT[j] })
		t.Policy = fmt.Sprintf("pct%v", pol.PCT)
	default:
		pol.PHot = []float64{0.5, 0.1, 0.02}[rng.Intn(3)]
		pol.PCold = []float64{0, 1e-3, 1e-4}[rng.Intn(3)]
		t.Policy = fmt.Sprintf("random(hot=%g,cold=%g)", pol.PHot, pol.PCold)
	}
	schedSeed := rng.Uint64()
	// pre-roll: a quarter of the runs do not start from a cold process
	if rng.Bool(0.25) {
		n := []int{1, 2, 7, 15, 16, 17, 31, 32, 63}[rng.Intn(9)]
		src := t.Programs[rng.Intn(len(t.Programs))]
		op := src[rng.Intn(len(src))]
		for k := 0; k < n; k++ {
			c := TOp{Kind: op.Kind, S: append([]int{}, op.S...), P: append([]int{}, op.P...)}
			if k%2 == 1 {
				for j := range c.S {
					c.S[j] = (c.S[j] + k) % ns
				}
				for j := range c.P {
					if c.P[j] >= 0 {
						c.P[j] = (c.P[j] + k) % np
					}
				}
			}
			t.Pre = append(t.Pre, c)
		}
	}
	return t, pol, schedSeed
}

type shared struct {
	S []*edwards25519.Scalar
	P []*edwards25519.Point
	// E: shared read-only field elements (the y coordinates of the shared points),
	// half of them in an unreduced representation of the same value
	E []*field.Element
	// B: read-only byte buffers that several tasks pass to setters at the same time
	// (a 64-byte seed whose first half is also used as a 32-byte window with spare
	// capacity, the encoding of a shared point, canonical scalar bytes)
	B [][]byte
	// SS, PP: one scalar slice and one point slice (spare capacity behind the
	// window) that several tasks pass to the multi-scalar routines at the same time
	SS []*edwards25519.Scalar
	PP []*edwards25519.Point
}

func buildShared(t *SchedTrace) (*shared, error) {
	sh := &shared{}
	// built directly in memory from the reference model: no decoder of the library
	// runs before the concurrent phase
	for _, b := range t.Scalars {
		if len(b) != 32 {
			return nil, fmt.Errorf("shared scalar: bad length")
		}
		sh.S = append(sh.S, hist.ScalarFromInt(alpha.FromLE(b)))
	}
	for _, b := range t.Points {
		if len(b) != 32 {
			return nil, fmt.Errorf("shared point: bad length")
		}
		yb := append([]byte{}, b...)
		sign := uint(yb[31] >> 7)
		yb[31] &= 0x7f
		y := alpha.FromLE(yb)
		y.Mod(y, alpha.P)
		x, ok := ref.RecoverX(y, sign)
		if !ok {
			return nil, fmt.Errorf("shared point: not on the curve")
		}
		if k := len(sh.P); k >= 2 {
			// a projective representation with Z != 1 (a reader that normalises its
			// receiver in place would write to it)
			sh.P = append(sh.P, hist.PointFromProjective(x, y, big.NewInt(int64(2*k+1))))
		} else {
			sh.P = append(sh.P, hist.PointFromAffine(x, y))
		}
		sh.E = append(sh.E, hist.ElemFromInt(y, len(sh.E)%2 == 1))
	}
	// shared byte inputs and term slices, derived from the trace (no library call)
	seed := make([]byte, 0, 64)
	for _, b := range t.Scalars {
		seed = append(seed, b...)
	}
	for len(seed) < 64 {
		seed = append(seed, byte(len(seed))|0x81)
	}
	seed = seed[:64]
	seed[0] |= 7     // clamping would clear these bits
	seed[31] |= 0x80 // and this one
	sh.B = append(sh.B, seed, append([]byte{}, t.Points[len(t.Points)-1]...), append([]byte{}, t.Scalars[0]...))
	n := 3
	if len(sh.S) < n {
		n = len(sh.S)
	}
	if len(sh.P) < n {
		n = len(sh.P)
	}
	ss := make([]*edwards25519.Scalar, n, n+5)
	pp := make([]*edwards25519.Point, n, n+5)
	copy(ss, sh.S)
	copy(pp, sh.P)
	sh.SS, sh.PP = ss, pp
	return sh, nil
}

// The task bodies must not call into packages that synchronise internally
// (fmt keeps a sync.Pool): under the race detector that would add
// happens-before edges between tasks and could mask races in the library.
func hx(b []byte) string { return hex.EncodeToString(b) }

func errText(e error) string {
	if e == nil {
		return "<nil>"
	}
	return e.Error()
}

func panicText(r interface{}) string {
	switch x := r.(type) {
	case string:
		return x
	case error:
		return x.Error()
	}
	return "non-string panic value"
}

func rawPointHex(r alpha.PointRaw) string {
	var b []byte
	for _, l := range [4]alpha.Limbs{r.X, r.Y, r.Z, r.T} {
		for _, x := range l {
			b = strconv.AppendUint(b, x, 16)
			b = append(b, ',')
		}
	}
	return string(b)
}

// finaliseDigests turns the raw coordinates recorded by the task bodies into
// representation-independent value digests (big.Int work, done outside the
// concurrent phase).
func finaliseDigests(res [][]string) {
	for i := range res {
		for j, d := range res[i] {
			k := strings.Index(d, " -> RAW:")
			if k < 0 {
				continue
			}
			fs := strings.Split(strings.TrimSuffix(d[k+len(" -> RAW:"):], ","), ",")
			var raw alpha.PointRaw
			if len(fs) == 20 {
				ls := [4]*alpha.Limbs{&raw.X, &raw.Y, &raw.Z, &raw.T}
				for q := 0; q < 20; q++ {
					v, _ := strconv.ParseUint(fs[q], 16, 64)
					ls[q/5][q%5] = v
				}
			}
			res[i][j] = d[:k] + " -> " + hist.ValueDigestPoint(raw)
		}
	}
}

// runProgram executes one task program; out receives one digest per op.
func runProgram(prog []TOp, sh *shared, out *[]string) {
	var prev *edwards25519.Point
	for _, op := range prog {
		pt := func(i int) *edwards25519.Point {
			if i < 0 || i >= len(sh.P) {
				if prev != nil {
					return prev
				}
				return sh.P[0]
			}
			return sh.P[i]
		}
		sc := func(i int) *edwards25519.Scalar { return sh.S[i%len(sh.S)] }
		recv := new(edwards25519.Point)
		var extra string
		func() {
			defer func() {
				if r := recover(); r != nil {
					extra = " panic=" + panicText(r)
					recv = nil
				}
			}()
			switch op.Kind {
			case "ScalarBaseMult":
				recv.ScalarBaseMult(sc(op.S[0]))
			case "VarTimeDoubleScalarBaseMult":
				recv.VarTimeDoubleScalarBaseMult(sc(op.S[0]), pt(op.P[0]), sc(op.S[1]))
			case "ScalarMult":
				recv.ScalarMult(sc(op.S[0]), pt(op.P[0]))
			case "MultiScalarMult", "VarTimeMultiScalarMult":
				var ss []*edwards25519.Scalar
				var ps []*edwards25519.Point
				for k := range op.S {
					ss = append(ss, sc(op.S[k]))
					ps = append(ps, pt(op.P[k]))
				}
				if op.Kind == "MultiScalarMult" {
					recv.MultiScalarMult(ss, ps)
				} else {
					recv.VarTimeMultiScalarMult(ss, ps)
				}
			case "Add":
				recv.Add(pt(op.P[0]), pt(op.P[1]))
			case "MultByCofactor":
				recv.MultByCofactor(pt(op.P[0]))
			case "BytesRoundTrip":
				b := pt(op.P[0]).Bytes()
				extra = " bytes=" + hx(b)
				if _, err := recv.SetBytes(b); err != nil {
					extra += " err=" + err.Error()
					recv = nil
				}
			case "Encode":
				p := pt(op.P[0])
				extra = " bytes=" + hx(p.Bytes()) + " mont=" + hx(p.BytesMontgomery())
				recv = edwards25519.NewIdentityPoint()
			case "CoordsRoundTrip":
				X, Y, Z, T := pt(op.P[0]).ExtendedCoordinates()
				if _, err := recv.SetExtendedCoordinates(X, Y, Z, T); err != nil {
					extra = " err=" + err.Error()
					recv = nil
				}
			case "NegateSubtract":
				recv.Negate(pt(op.P[0]))
				recv.Subtract(recv, pt(op.P[1]))
			case "Equal":
				extra = " equal=" + strconv.Itoa(pt(op.P[0]).Equal(pt(op.P[1])))
				recv = edwards25519.NewIdentityPoint()
			case "ScalarArith":
				s := new(edwards25519.Scalar).MultiplyAdd(sc(op.S[0]), sc(op.S[1]), sc(op.S[2]))
				s.Subtract(s, sc(op.S[0])).Negate(s)
				u, _ := new(edwards25519.Scalar).SetUniformBytes(append(s.Bytes(), sc(op.S[1]).Bytes()...))
				extra = " scalar=" + hx(s.Bytes()) + " wide=" + hx(u.Bytes()) + " eq=" + strconv.Itoa(s.Equal(u))
				recv = edwards25519.NewIdentityPoint()
			case "FieldArith":
				X, Y, Z, _ := pt(op.P[0]).ExtendedCoordinates()
				var e, f field.Element
				e.Invert(Z)
				f.Multiply(X, &e)
				e.Multiply(Y, &e)
				r, wasSq := new(field.Element).SqrtRatio(&f, &e)
				f.Absolute(f.Subtract(&f, &e))
				extra = " x=" + hx(f.Bytes()) + " sqrt=" + hx(r.Bytes()) + "/" + strconv.Itoa(wasSq) + " abs=" + hx(f.Bytes()) + " neg=" + strconv.Itoa(e.IsNegative())
				recv = edwards25519.NewIdentityPoint()
			case "SetterErrors":
				// every fallible setter on a rejected input, receivers holding values
				p := new(edwards25519.Point).Set(pt(op.P[0]))
				s := new(edwards25519.Scalar).Set(sc(op.S[0]))
				var e field.Element
				e.One()
				bad := make([]byte, 32)
				bad[0] = 2 // y = 2 is not on the curve
				big := bytes.Repeat([]byte{0xff}, 32)
				_, e1 := p.SetBytes(bad)
				_, e2 := p.SetBytes(bad[:31])
				_, e3 := s.SetCanonicalBytes(big)
				_, e4 := s.SetUniformBytes(big)
				_, e5 := s.SetBytesWithClamping(big[:5])
				_, e6 := e.SetBytes(big[:7])
				_, e7 := e.SetWideBytes(big)
				X, Y, Z, T := p.ExtendedCoordinates()
				_, e8 := p.SetExtendedCoordinates(Y, X, Z, T)
				extra = " errs=" + errText(e1) + "|" + errText(e2) + "|" + errText(e3) + "|" + errText(e4) + "|" + errText(e5) + "|" + errText(e6) + "|" + errText(e7) + "|" + errText(e8) + " p=" + hx(p.Bytes()) + " s=" + hx(s.Bytes()) + " e=" + hx(e.Bytes())
				recv = edwards25519.NewIdentityPoint()
			case "ScalarSweep":
				a, b, c := sc(op.S[0]), sc(op.S[1]), sc(op.S[2])
				s := new(edwards25519.Scalar).Add(a, b)
				s.Multiply(s, c).Negate(s).Invert(s)
				cl, _ := new(edwards25519.Scalar).SetBytesWithClamping(a.Bytes())
				cn, _ := new(edwards25519.Scalar).SetCanonicalBytes(s.Bytes())
				extra = " s=" + hx(s.Bytes()) + " cl=" + hx(cl.Bytes()) + " eq=" + strconv.Itoa(cn.Equal(s)) + "/" + strconv.Itoa(a.Equal(b))
				recv = edwards25519.NewIdentityPoint()
			case "ElementSweep":
				// (from the affine coordinates: the projective representation a
				// point operation leaves behind is not part of its result)
				X, Y, Z, T := pt(op.P[0]).ExtendedCoordinates()
				var zi, a, b, c field.Element
				zi.Invert(Z)
				X.Multiply(X, &zi)
				Y.Multiply(Y, &zi)
				T.Multiply(T, &zi)
				a.Square(X).Mult32(&a, 121666).Add(&a, Y)
				b.Pow22523(Y)
				c.Select(&a, &b, T.IsNegative())
				a.Swap(&b, 1)
				w, _ := new(field.Element).SetWideBytes(append(a.Bytes(), b.Bytes()...))
				sb, _ := new(field.Element).SetBytes(sc(op.S[0]).Bytes())
				c.Negate(&c).Subtract(&c, sb)
				var z, o field.Element
				z.Zero()
				o.One()
				extra = " a=" + hx(a.Bytes()) + " b=" + hx(b.Bytes()) + " c=" + hx(c.Bytes()) + " w=" + hx(w.Bytes()) + " eq=" + strconv.Itoa(z.Equal(&o)) + "/" + strconv.Itoa(a.Equal(&b))
				recv = edwards25519.NewIdentityPoint()
			case "SharedElements":
				// read-only use of field elements that other tasks are reading too
				e, f := sh.E[op.P[0]%len(sh.E)], sh.E[op.P[1]%len(sh.E)]
				var a, b, c field.Element
				a.Add(e, f)
				b.Multiply(e, f)
				a.Subtract(&a, &b)
				b.Invert(e)
				c.Select(e, f, e.IsNegative())
				c.Negate(&c).Square(&c)
				r, wasSq := new(field.Element).SqrtRatio(e, f)
				extra = " e=" + hx(e.Bytes()) + " f=" + hx(f.Bytes()) + " a=" + hx(a.Bytes()) + " b=" + hx(b.Bytes()) + " c=" + hx(c.Bytes()) +
					" sqrt=" + hx(r.Bytes()) + "/" + strconv.Itoa(wasSq) + " eq=" + strconv.Itoa(e.Equal(f)) + "/" + strconv.Itoa(f.Equal(f))
				recv = edwards25519.NewIdentityPoint()
			case "SharedBytes":
				// byte inputs that other tasks are passing to setters at the same time
				seed, penc, sb := sh.B[0], sh.B[1], sh.B[2]
				c1, e1 := new(edwards25519.Scalar).SetBytesWithClamping(seed[:32])
				c2, e2 := new(edwards25519.Scalar).SetUniformBytes(seed)
				c3, e3 := new(edwards25519.Scalar).SetCanonicalBytes(sb)
				f1, e4 := new(field.Element).SetBytes(seed[:32])
				f2, e5 := new(field.Element).SetWideBytes(seed)
				_, e6 := recv.SetBytes(penc)
				extra = " errs=" + errText(e1) + "|" + errText(e2) + "|" + errText(e3) + "|" + errText(e4) + "|" + errText(e5) + "|" + errText(e6)
				if e1 == nil && e2 == nil && e3 == nil && e4 == nil && e5 == nil {
					extra += " c=" + hx(c1.Bytes()) + hx(c2.Bytes()) + hx(c3.Bytes()) + " f=" + hx(f1.Bytes()) + hx(f2.Bytes())
				}
				if e6 != nil {
					recv = nil
				}
			case "SharedSlices":
				// the very same slices that other tasks are passing at the same time
				recv.MultiScalarMult(sh.SS, sh.PP)
				v := new(edwards25519.Point).VarTimeMultiScalarMult(sh.SS, sh.PP)
				extra = " vartime-equal=" + strconv.Itoa(v.Equal(recv))
			case "MultiMany":
				var ss []*edwards25519.Scalar
				var ps []*edwards25519.Point
				for k := range op.S {
					ss = append(ss, sc(op.S[k]))
					ps = append(ps, pt(op.P[k]))
				}
				recv.MultiScalarMult(ss, ps)
				v := new(edwards25519.Point).VarTimeMultiScalarMult(ss, ps)
				extra = " vartime-equal=" + strconv.Itoa(v.Equal(recv))
			case "NewGenerator":
				recv = edwards25519.NewGeneratorPoint()
			case "ScalarInvert":
				s := new(edwards25519.Scalar).Invert(sc(op.S[0]))
				extra = " scalar=" + hx(s.Bytes())
				recv = edwards25519.NewIdentityPoint()
			}
		}()
		d := op.Kind + extra
		if recv != nil {
			d += " -> RAW:" + rawPointHex(alpha.PointLimbs(recv))
			prev = recv
		}
		*out = append(*out, d)
		sched.OpBoundary()
	}
}

// freshShared derives different argument values: every point plus a fixed
// point of large order, every scalar plus one.
func freshShared(sh *shared) *shared {
	out := &shared{}
	seven, _ := new(edwards25519.Scalar).SetCanonicalBytes(append([]byte{7}, make([]byte, 31)...))
	one, _ := new(edwards25519.Scalar).SetCanonicalBytes(append([]byte{1}, make([]byte, 31)...))
	off := new(edwards25519.Point).ScalarMult(seven, edwards25519.NewGeneratorPoint())
	for _, s := range sh.S {
		out.S = append(out.S, new(edwards25519.Scalar).Add(s, one))
	}
	for _, p := range sh.P {
		out.P = append(out.P, new(edwards25519.Point).Add(p, off))
	}
	for _, e := range sh.E {
		out.E = append(out.E, new(field.Element).Add(e, new(field.Element).One()))
	}
	seed := append([]byte{}, sh.B[0]...)
	for i := range seed {
		seed[i] ^= 0x5a
	}
	out.B = append(out.B, seed, out.P[len(out.P)-1].Bytes(), out.S[0].Bytes())
	n := len(sh.SS)
	ss := make([]*edwards25519.Scalar, n, n+5)
	pp := make([]*edwards25519.Point, n, n+5)
	copy(ss, out.S)
	copy(pp, out.P)
	out.SS, out.PP = ss, pp
	return out
}

// tableBattery reads every entry of both lazily built basepoint tables through
// the public API and returns a digest of the results: ScalarBaseMult with all
// 64 radix-16 digits equal to j (j = 1..8) and the negatives of those scalars
// (entries +-j of all 32 sub-tables), VarTimeDoubleScalarBaseMult with a = 0
// and b = k for every odd k < 128 and l - k (entries +-k of the NAF table).
func tableBattery() string {
	h := sha256.New()
	zero := edwards25519.NewScalar()
	id := edwards25519.NewIdentityPoint()
	for j := 1; j <= 8; j++ {
		b := bytes.Repeat([]byte{byte(j | j<<4)}, 32)
		b[31] = byte(j) & 0x0f // keep it below l: top nibble zero
		s, err := new(edwards25519.Scalar).SetCanonicalBytes(b)
		if err != nil {
			continue
		}
		for _, x := range []*edwards25519.Scalar{s, new(edwards25519.Scalar).Negate(s)} {
			p := new(edwards25519.Point).ScalarBaseMult(x)
			h.Write([]byte(hist.ValueDigestPoint(alpha.PointLimbs(p))))
		}
	}
	for k := 1; k < 128; k += 2 {
		b := make([]byte, 32)
		b[0] = byte(k)
		s, _ := new(edwards25519.Scalar).SetCanonicalBytes(b)
		for _, x := range []*edwards25519.Scalar{s, new(edwards25519.Scalar).Negate(s)} {
			p := new(edwards25519.Point).VarTimeDoubleScalarBaseMult(zero, id, x)
			h.Write([]byte(hist.ValueDigestPoint(alpha.PointLimbs(p))))
		}
	}
	return fmt.Sprintf("%x", h.Sum(nil)[:16])
}

func rawShared(sh *shared) []byte {
	var b []byte
	for _, s := range sh.S {
		r := alpha.ScalarLimbs(s)
		b = append(b, fmt.Sprint(r)...)
	}
	for _, p := range sh.P {
		r := alpha.PointLimbs(p)
		b = append(b, fmt.Sprint(r)...)
	}
	for _, e := range sh.E {
		b = append(b, fmt.Sprint(alpha.ElemLimbs(e))...)
	}
	for _, x := range sh.B {
		b = append(b, hx(x[:cap(x)])...)
		b = append(b, '|')
	}
	// the whole backing arrays of the shared term slices, by pointer identity
	for _, x := range sh.SS[:cap(sh.SS)] {
		b = append(b, fmt.Sprintf("%p,", x)...)
	}
	for _, x := range sh.PP[:cap(sh.PP)] {
		b = append(b, fmt.Sprintf("%p,", x)...)
	}
	return b
}

// RefOut is what the sequential cold reference process reports.
type RefOut struct {
	Results [][]string `json:"results"`
	Cold    []uint32   `json:"cold"` // per site, whole sequential cold execution
	Warm    []uint32   `json:"warm"` // per site, second (warm) sequential execution
	PkgHash string     `json:"pkg_hash"`
	// Fresh: per site, a third sequential execution of the same programs on
	// DIFFERENT argument values (every shared point and scalar replaced). Code
	// that runs here is keyed by arguments (per-point caches), not first-use
	// construction of argument-independent state.
	Fresh []uint32 `json:"fresh"`
	// Battery: outputs of a fixed set of basepoint operations that together read
	// every entry of the lazily built tables.
	Battery string `json:"battery"`
	// LazyConst: package-level variables (pkg.name) that are lazily built constants.
	LazyConst []string `json:"lazy_const"`
}

func cmdSchedRef() {
	if err := hist.InitNoLibrary(); err != nil {
		fatal2("%v", err)
	}
	var t SchedTrace
	if err := json.NewDecoder(os.Stdin).Decode(&t); err != nil {
		fatal2("schedref: %v", err)
	}
	sh, err := buildShared(&t)
	if err != nil {
		fatal2("%v", err)
	}
	if len(t.Pre) > 0 {
		var sink []string
		runProgram(t.Pre, sh, &sink)
	}
	atStart := pkgVarStates()
	ro := &RefOut{Results: make([][]string, len(t.Programs))}
	ro.Cold = sched.CountSequential(func() {
		for i, p := range t.Programs {
			runProgram(p, sh, &ro.Results[i])
		}
	})
	finaliseDigests(ro.Results)
	ro.PkgHash = fmt.Sprintf("%x", sha256.Sum256(pkgSnapHook()()))
	afterCold := pkgVarStates()
	ro.Warm = sched.CountSequential(func() {
		for _, p := range t.Programs {
			var sink []string
			runProgram(p, sh, &sink)
		}
	})
	afterWarm := pkgVarStates()
	ro.Battery = tableBattery()
	sh2 := freshShared(sh)
	ro.Fresh = sched.CountSequential(func() {
		for _, p := range t.Programs {
			var sink []string
			runProgram(p, sh2, &sink)
		}
	})
	afterFresh := pkgVarStates()
	// lazily built constants: package-level variables whose content was changed by
	// the cold pass and then never again (same after the warm pass and after the
	// pass on fresh arguments)
	for name, st := range afterCold {
		if string(st) != string(atStart[name]) && string(st) == string(afterWarm[name]) && string(st) == string(afterFresh[name]) {
			ro.LazyConst = append(ro.LazyConst, name)
		}
	}
	sort.Strings(ro.LazyConst)
	json.NewEncoder(os.Stdout).Encode(ro)
}

// pkgVarStates renders every package-level variable of both packages separately.
func pkgVarStates() map[string][]byte {
	m := edwards25519.VerifPkgVarStates()
	for k, v := range field.VerifPkgVarStates() {
		m[k] = v
	}
	return m
}

func cmdSched(args []string) {
	fs := flag.NewFlagSet("sched", flag.ExitOnError)
	seed := fs.Uint64("seed", 1, "base seed")
	idx := fs.Uint64("idx", 0, "run index")
	tracePath := fs.String("trace", "", "replay this trace instead of generating")
	small := fs.Bool("small", false, "smaller programs (race tier)")
	keep := fs.Bool("keeptrace", false, "always attach the trace")
	progFile := fs.String("programs", "", "debugging aid: JSON file with task programs that replace the generated ones (scheduling still generated)")
	out := fs.String("out", "", "output file")
	fs.Parse(args)
	if err := hist.InitNoLibrary(); err != nil {
		fatal2("%v", err)
	}
	if !field.VerifInstrumented {
		fatal2("this build has no yield points")
	}
	if len(field.VerifUnsupported) > 0 {
		fatal2("the library uses constructs the scheduler cannot control: %v", field.VerifUnsupported)
	}
	var t *SchedTrace
	var pol sched.Policy
	var schedSeed uint64
	var replay [][]sched.Decision
	if *tracePath != "" {
		b, err := os.ReadFile(*tracePath)
		if err != nil {
			fatal2("%v", err)
		}
		t = &SchedTrace{}
		if err := json.Unmarshal(b, t); err != nil {
			fatal2("bad trace: %v", err)
		}
		replay = make([][]sched.Decision, len(t.Programs))
		for _, d := range t.Decisions {
			if d.Task >= 0 && d.Task < len(replay) {
				replay[d.Task] = append(replay[d.Task], d)
			}
		}
		sched.FirstOverride = t.First
	} else {
		t, pol, schedSeed = genSchedTrace(*seed, *idx, *small)
		if *progFile != "" {
			b, err := os.ReadFile(*progFile)
			if err != nil {
				fatal2("%v", err)
			}
			var progs [][]TOp
			if err := json.Unmarshal(b, &progs); err != nil {
				fatal2("bad programs file: %v", err)
			}
			t.Programs = progs
		}
	}
	so := runSched(t, pol, schedSeed, replay)
	so.Idx, so.Seed = t.RunIdx, t.Seed
	if so.Violation != nil || *keep {
		so.Trace = t
		t.Violation = so.Violation
	}
	b, _ := json.Marshal(so)
	if *out != "" {
		os.WriteFile(*out, b, 0o644)
	} else {
		fmt.Println(string(b))
	}
	if so.Violation != nil {
		os.Exit(1)
	}
}

func viol(oracle, key, detail string) *hist.Violation {
	return &hist.Violation{Prop: "C18", Oracle: oracle, Key: oracle + "/" + key, Detail: detail}
}

func siteName(i int) string {
	s := field.VerifSites[i]
	return fmt.Sprintf("%s:%d (%s)", s.File, s.Line, s.Func)
}

func runSched(t *SchedTrace, pol sched.Policy, schedSeed uint64, replay [][]sched.Decision) *SchedOut {
	so := &SchedOut{Stats: map[string]int64{}}
	sh, err := buildShared(t)
	if err != nil {
		fatal2("%v", err)
	}
	if len(t.Pre) > 0 {
		var sink []string
		runProgram(t.Pre, sh, &sink)
		so.Stats["runs_with_pre_roll"] = 1
	}
	sharedBefore := rawShared(sh)
	n := len(t.Programs)
	results := make([][]string, n)
	bodies := make([]func(), n)
	for i := range bodies {
		i := i
		bodies[i] = func() { runProgram(t.Programs[i], sh, &results[i]) }
	}
	res, first := sched.Run(bodies, schedSeed, pol, replay, 600*time.Second)
	if replay == nil {
		t.First = first
		t.Decisions = res.Log
	}
	so.Stats["yields"] = int64(res.Yields)
	so.Stats["switches"] = int64(res.Switches)
	so.Stats["gate_blocks"] = int64(res.GateBlocks)
	so.Stats["gate_calls"] = int64(res.GateCalls)
	so.Stats["gate_calls_open"] = int64(res.GateCallsOpen)
	so.Stats["preempt_inside_once_closure"] = int64(res.PreemptInClosure)
	so.Stats["tasks"] = int64(n)
	{
		// reach: the largest number of tasks that were inside their programs at the
		// same time (started, not finished), from the decision log
		started := make([]bool, n)
		inflight, maxIn := 0, 0
		mark := func(k int) {
			if k >= 0 && k < n && !started[k] {
				started[k] = true
				inflight++
				if inflight > maxIn {
					maxIn = inflight
				}
			}
		}
		mark(first)
		for _, d := range res.Log {
			if d.Kind == 2 && d.Task >= 0 && d.Task < n && started[d.Task] {
				inflight--
			}
			mark(d.Next)
		}
		for _, th := range []int{2, 5, 9, 17, 33, 65, 129} {
			if maxIn >= th {
				so.Stats[fmt.Sprintf("runs_with_%d_or_more_overlapping_tasks", th)] = 1
			}
		}
	}
	so.SwitchHash = fmt.Sprintf("%016x", res.SwitchHash)
	if res.Watchdog {
		fatal2("watchdog: the concurrent phase did not finish within 600 s (a task blocked in a primitive the scheduler does not control?)")
	}
	if res.LogOverflow && replay == nil {
		// more context switches than the decision log holds: the run cannot be
		// replayed, so it is discarded (counted), not judged
		so.Stats["runs_discarded_decision_log_overflow"] = 1
		so.Hash = "overflow"
		return so
	}
	h := sha256.New()
	seenSite := map[int]bool{}
	for _, d := range res.Log {
		fmt.Fprintf(h, "%d %d %d %d %d\n", d.Task, d.Ord, d.Next, d.Kind, d.Site)
		if d.Site >= 0 && !seenSite[d.Site] {
			seenSite[d.Site] = true
			so.SwitchSites = append(so.SwitchSites, d.Site)
		}
	}
	sort.Ints(so.SwitchSites)
	so.SiteTotals[0] = len(field.VerifSites)
	for _, sd := range field.VerifSites {
		if sd.Hot {
			so.SiteTotals[1]++
		}
		if sd.Sync {
			so.SiteTotals[2]++
		}
	}
	if res.Deadlock {
		so.Violation = viol("deadlock", "deadlock", fmt.Sprintf("no runnable task while tasks %v are blocked (concurrent callers can no longer make progress)", res.BlockedTasks))
		so.Hash = fmt.Sprintf("%x", h.Sum(nil)[:16])
		return so
	}
	if res.StepCap {
		so.Violation = viol("no-progress", "step-cap", fmt.Sprintf("the %d tasks executed more than %d statements without any of them completing an operation (livelock)", n, sched.StepCapFor(n)))
		so.Hash = fmt.Sprintf("%x", h.Sum(nil)[:16])
		return so
	}
	finaliseDigests(results)
	for i := range results {
		for _, r := range results[i] {
			fmt.Fprintf(h, "%d %s\n", i, r)
		}
	}
	so.Hash = fmt.Sprintf("%x", h.Sum(nil)[:16])

	// oracle 4a: shared arguments only read
	if !bytes.Equal(sharedBefore, rawShared(sh)) {
		so.Violation = viol("shared-argument-modified", "shared", "a shared read-only argument changed during the concurrent phase")
		return so
	}
	pkgConc := sha256.Sum256(pkgSnapHook()())

	// oracle 1: sequential equivalence (warm, same process)
	seq := make([][]string, n)
	warm := sched.CountSequential(func() {
		for i, p := range t.Programs {
			runProgram(p, sh, &seq[i])
		}
	})
	finaliseDigests(seq)
	for i := range seq {
		for j := range seq[i] {
			if j >= len(results[i]) || results[i][j] != seq[i][j] {
				got := "<missing>"
				if j < len(results[i]) {
					got = results[i][j]
				}
				so.Violation = viol("differs-from-sequential", t.Programs[i][j].Kind,
					fmt.Sprintf("task %d op %d: concurrent result %q, sequential re-execution %q", i, j, got, seq[i][j]))
				return so
			}
		}
	}
	// (Package state after the warm re-execution is deliberately not compared with
	// the state after the concurrent phase: a correct tree may keep call counters
	// or statistics. The comparison below, against a sequential cold process that
	// made the same calls, is robust to that.)

	// reference: sequential cold process
	self, _ := os.Executable()
	tb, _ := json.Marshal(t)
	cmd := exec.Command(self, "schedref")
	cmd.Stdin = bytes.NewReader(tb)
	cmd.Env = append(os.Environ(), "GORACE=halt_on_error=0 atexit_sleep_ms=0")
	ob, err := cmd.Output()
	if err != nil {
		fatal2("reference process failed: %v", err)
	}
	var ro RefOut
	if err := json.Unmarshal(ob, &ro); err != nil {
		fatal2("reference process output: %v", err)
	}
	for i := range ro.Results {
		for j := range ro.Results[i] {
			if j >= len(results[i]) || results[i][j] != ro.Results[i][j] {
				got := "<missing>"
				if j < len(results[i]) {
					got = results[i][j]
				}
				so.Violation = viol("differs-from-sequential", t.Programs[i][j].Kind+"/cold-reference",
					fmt.Sprintf("task %d op %d: concurrent result %q, sequential cold process %q", i, j, got, ro.Results[i][j]))
				return so
			}
		}
	}
	// oracle 4: the lazily built tables must hold the same content whatever the
	// schedule was. Decided by behaviour (a battery of basepoint operations that
	// reads every table entry), not by comparing raw package memory: a correct
	// implementation may keep caches or statistics whose content legitimately
	// depends on the order of calls. The raw comparison is only recorded.
	if fmt.Sprintf("%x", pkgConc) != ro.PkgHash {
		so.Stats["package_memory_differs_from_sequential_reference"] = 1
	}
	if bat := tableBattery(); bat != ro.Battery {
		so.Violation = viol("lazy-table-content-depends-on-schedule", "tables", "after the concurrent phase, basepoint operations that together read every entry of the lazily built tables give results different from those of a sequential cold process: a table entry was built or published wrongly under this schedule")
		return so
	}
	// oracle 2: the lazily built tables are constructed exactly once.
	//
	// Counting executions of individual statements is fragile: idempotent
	// re-publication, read-only predicates, order-dependent bookkeeping ("largest
	// call so far", "first error") and the initialisation of pooled scratch objects
	// by several concurrent users all repeat a few first-use-only statements in
	// correct code. What they never do is repeat a whole construction. The oracle
	// therefore needs the AMOUNT of repeated first-use-only work to be that of a
	// construction:
	//  A. a statement that writes a lazily built constant (identified by content in
	//     the reference process) ran at least twice as often as in the sequential
	//     cold run, AND at least 1000 first-use-only statements were repeated in all;
	//  B. (advisory only) the repeated first-use-only statements were, between them,
	//     executed at least once more in full and the excess is at least 3000
	//     statements. Not reported: indistinguishable from pooled scratch objects with
	//     an expensive constructor being initialised by several concurrent users.
	// "First-use-only" = runs in the sequential cold pass, not in the warm pass, not
	// in the pass on fresh arguments (so argument-keyed caches never qualify).
	var coldWork, excess, coldOfRepeated uint64
	worst, worstExcess := -1, uint32(0)
	for s := range field.VerifSites {
		if s >= len(ro.Cold) || ro.Warm[s] != 0 || ro.Cold[s] == 0 || (s < len(ro.Fresh) && ro.Fresh[s] != 0) {
			continue
		}
		var conc uint32
		for _, c := range res.Counts {
			conc += c[s]
		}
		coldWork += uint64(ro.Cold[s])
		if conc > ro.Cold[s] {
			e := conc - ro.Cold[s]
			excess += uint64(e)
			coldOfRepeated += uint64(ro.Cold[s])
			if e > worstExcess {
				worst, worstExcess = s, e
			}
		}
	}
	lazy := map[string]bool{}
	for _, n := range ro.LazyConst {
		lazy[n] = true
	}
	isFirstUseOnly := func(s int) bool {
		return s < len(ro.Cold) && ro.Warm[s] == 0 && ro.Cold[s] > 0 && (s >= len(ro.Fresh) || ro.Fresh[s] == 0)
	}
	// Per task: how much of the sequential cold run's first-use-only work it
	// repeated, every statement capped at its cold count (a waiter that polls a
	// few statements thousands of times has done no construction work).
	taskWork := make([]uint64, len(res.Counts))
	for t, c := range res.Counts {
		for s := range field.VerifSites {
			if !isFirstUseOnly(s) || s >= len(c) {
				continue
			}
			n := c[s]
			if n > ro.Cold[s] {
				n = ro.Cold[s]
			}
			taskWork[t] += uint64(n)
		}
	}
	// Per lazily built constant: the tasks that executed one of its first-use-only
	// write sites.
	writers := map[string]map[int]bool{}
	writeSite := map[string]int{}
	repeated := map[string]bool{} // some write site of the constant ran at least twice as often as in the cold run
	firstUse := 0
	for s, sd := range field.VerifSites {
		if !sd.Write || !isFirstUseOnly(s) {
			continue
		}
		// the written field (pkg.var.field) or, failing that, the whole variable must
		// be a lazily built constant
		root := sd.Root
		if !lazy[root] {
			if k := strings.LastIndex(root, "."); k > strings.Index(root, ".") {
				root = root[:k]
			}
			if !lazy[root] {
				continue
			}
		}
		firstUse++
		var conc uint32
		for _, c := range res.Counts {
			if s < len(c) {
				conc += c[s]
			}
		}
		if conc >= 2*ro.Cold[s] {
			repeated[root] = true
		}
		for t, c := range res.Counts {
			if s < len(c) && c[s] > 0 {
				if writers[root] == nil {
					writers[root] = map[int]bool{}
				}
				writers[root][t] = true
				if _, ok := writeSite[root]; !ok {
					writeSite[root] = s
				}
			}
		}
	}
	// A. Some first-use-only statement that writes a lazily built constant ran at
	// least twice as often as in the sequential cold run (tasks that build disjoint
	// parts of a sharded table repeat nothing), AND two different tasks each (i)
	// executed a first-use-only statement that writes that constant and (ii)
	// repeated at least half of the whole first-use-only work of the sequential cold
	// run, which itself has the size of a construction. Idempotent re-publication by every slow-path caller,
	// contenders that call into the initialiser and wait, and a second user
	// initialising pooled scratch do (i) or part of (ii), never both.
	if coldWork >= 1000 {
		var roots []string
		for r := range writers {
			roots = append(roots, r)
		}
		sort.Strings(roots)
		for _, root := range roots {
			var builders []int
			for t := range res.Counts {
				if writers[root][t] && taskWork[t]*2 >= coldWork {
					builders = append(builders, t)
				}
			}
			if len(builders) >= 2 && repeated[root] {
				s := writeSite[root]
				so.Violation = viol("first-use-construction-not-exactly-once", field.VerifSites[s].File,
					fmt.Sprintf("the lazily built constant %s was constructed more than once: tasks %v each executed a first-use-only write of it (e.g. %s) and each repeated at least half of the %d first-use-only statements of a sequential cold run (%d first-use-only statements were repeated in all)", root, builders, siteName(s), coldWork, excess))
				return so
			}
		}
	}
	so.Stats["first_use_write_sites"] = int64(firstUse)
	// (Form B - a large amount of repeated first-use-only work without a rooted write -
	// is recorded, not reported: a pooled scratch object with an expensive constructor,
	// initialised by several concurrent users, has exactly the same signature.)
	if excess >= 3000 && excess*10 >= coldOfRepeated*9 {
		so.Stats["runs_with_repeated_first_use_work"] = 1
		_, _ = worst, worstExcess
	}
	// reach probe, scheme-agnostic: pre-emptions that landed inside first-use-only code
	var preFU int64
	for _, d := range res.Log {
		if d.Kind == 0 && d.Site >= 0 && d.Site < len(ro.Cold) && ro.Warm[d.Site] == 0 && ro.Cold[d.Site] > 0 && (d.Site >= len(ro.Fresh) || ro.Fresh[d.Site] == 0) {
			preFU++
		}
	}
	so.Stats["preempt_inside_first_use_code"] = preFU
	if coldWork > 0 {
		so.Stats["runs_with_first_use_code"] = 1
	}
	so.Stats["first_use_only_statements_cold"] = int64(coldWork)
	so.Stats["first_use_only_statements_repeated"] = int64(excess)
	_ = warm
	// distinct per-task site traces (reach measure)
	return so
}

var _ = strings.Join

// cmdSiteCov runs history workloads with a counting hook at every instrumented
// statement and reports which library statements were executed (diagnostic:
// blind spots of the workloads).
func cmdSiteCov(args []string) {
	fs := flag.NewFlagSet("sitecov", flag.ExitOnError)
	props := fs.String("props", "C01,C05,C09,C11,C12,C14,C15,C19,C20", "workloads to run")
	seed := fs.Uint64("seed", 1, "base seed")
	runs := fs.Uint64("runs", 200, "runs per workload")
	out := fs.String("out", "", "output file")
	fs.Parse(args)
	if err := hist.Init(); err != nil {
		fatal2("%v", err)
	}
	total := make([]uint64, len(field.VerifSites))
	env := &hist.Env{Build: buildName(), PkgSnap: pkgSnapHook()}
	for _, p := range strings.Split(*props, ",") {
		cnt := sched.CountSequential(func() {
			st := hist.NewStats()
			for i := uint64(0); i < *runs; i++ {
				hist.RunSeed(p, *seed, i, st, env)
			}
		})
		for i, c := range cnt {
			total[i] += uint64(c)
		}
	}
	type row struct {
		Site  string `json:"site"`
		Count uint64 `json:"count"`
	}
	var rows []row
	for i, c := range total {
		rows = append(rows, row{siteName(i), c})
	}
	b, _ := json.Marshal(rows)
	if *out != "" {
		os.WriteFile(*out, b, 0o644)
	} else {
		os.Stdout.Write(b)
	}
}
