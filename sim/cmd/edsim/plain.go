//go:build !verif

package main

const buildSuffix = ""

// pkgSnapHook: the plain build has no in-package accessor.
func pkgSnapHook() func() []byte { return nil }

func extraCommand(name string, args []string) bool { return false }
