//go:build !purego

package main

func buildName() string { return "default" + buildSuffix }
