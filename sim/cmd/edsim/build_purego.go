//go:build purego

package main

func buildName() string { return "purego" + buildSuffix }
