// edsim is the simulator binary. It is rebuilt from /repo's working tree by
// every check (variants: default, purego, instrumented, instrumented+race).
package main

import (
	"bufio"
	"encoding/json"
	"flag"
	"fmt"
	"os"
	"runtime/debug"
	"strings"

	"verifsim/hist"
)

type WorkerOut struct {
	Prop     string `json:"property"`
	Build    string `json:"build"`
	From, To uint64
	// Done is one past the last run index executed: a process stops at its
	// first violation, because a violation may have left package state
	// corrupted for the runs that would follow in the same process.
	Done       uint64            `json:"done"`
	Stats      *hist.Stats       `json:"stats"`
	Hashes     []string          `json:"hashes"`     // value hash per run, in run order
	RawHashes  []string          `json:"raw_hashes"` // raw hash per run
	Nontrivial []bool            `json:"nontrivial"`
	Violations []*hist.RunResult `json:"violations"`
	Known      []string          `json:"known"`
	Samples    []*hist.RunResult `json:"samples"`
}

func fatal2(format string, a ...interface{}) {
	fmt.Printf("INCONCLUSIVE: "+format+"\n", a...)
	os.Exit(2)
}

func loadKnown(path string) []hist.KnownFinding {
	if path == "" {
		return nil
	}
	f, err := os.Open(path)
	if err != nil {
		return nil
	}
	defer f.Close()
	var out []hist.KnownFinding
	sc := bufio.NewScanner(f)
	for sc.Scan() {
		line := strings.TrimSpace(sc.Text())
		// known: property=C12 key=<prefix> <text>
		if !strings.HasPrefix(line, "known:") {
			continue
		}
		fs := strings.Fields(line[len("known:"):])
		k := hist.KnownFinding{}
		var rest []string
		for _, f := range fs {
			switch {
			case strings.HasPrefix(f, "property=") && k.Prop == "":
				k.Prop = f[len("property="):]
			case strings.HasPrefix(f, "key=") && k.Key == "":
				k.Key = f[len("key="):]
			default:
				rest = append(rest, f)
			}
		}
		k.Text = strings.Join(rest, " ")
		if k.Prop != "" && k.Key != "" {
			out = append(out, k)
		}
	}
	return out
}

func main() {
	// The garbage collector is the one scheduler-like agent the simulator does
	// not drive; its only observable effect on library code is through
	// sync.Pool-style caches. Keep it quiet (it still runs under memory
	// pressure) so that runs and replays see the same cache behaviour.
	debug.SetGCPercent(-1)
	debug.SetMemoryLimit(1 << 30)
	if len(os.Args) < 2 {
		fatal2("usage: edsim hist|replay|selfcheck ...")
	}
	switch os.Args[1] {
	case "selfcheck":
		if err := hist.Init(); err != nil {
			fatal2("%v", err)
		}
		fmt.Println("ok")
	case "hist":
		cmdHist(os.Args[2:])
	case "replay":
		cmdReplay(os.Args[2:])
	default:
		if !extraCommand(os.Args[1], os.Args[2:]) {
			fatal2("unknown command %q", os.Args[1])
		}
	}
}

func cmdHist(args []string) {
	fs := flag.NewFlagSet("hist", flag.ExitOnError)
	prop := fs.String("prop", "", "property id")
	seed := fs.Uint64("seed", 1, "base seed")
	from := fs.Uint64("from", 0, "first run index")
	to := fs.Uint64("to", 1, "one past the last run index")
	out := fs.String("out", "", "output file (JSON)")
	known := fs.String("known", "", "known findings file")
	transcript := fs.Bool("transcript", false, "keep per-step transcripts (C20 localisation)")
	samples := fs.Int("samples", 0, "number of sample traces to keep")
	fs.Parse(args)
	// No library call before the first recorded step: the layout guard runs without
	// its value cross-check (the driver has run `edsim selfcheck`, the same guard
	// with the cross-check, on this very binary); only a layout that cannot be
	// established without calling the library falls back to the full guard.
	if err := hist.InitNoLibrary(); err != nil {
		if err := hist.Init(); err != nil {
			fatal2("%v", err)
		}
	}
	env := &hist.Env{Known: loadKnown(*known), Build: buildName(), PkgSnap: pkgSnapHook()}
	wo := &WorkerOut{Prop: *prop, Build: buildName(), From: *from, To: *to, Stats: hist.NewStats()}
	for _, u := range hist.Unexercised {
		wo.Stats.Inc("unexercised_new_method/" + u)
	}
	for _, u := range hist.DynamicOps {
		wo.Stats.Inc("new_method_driven_generically/" + u)
	}
	var history []*hist.Trace
	for i := *from; i < *to; i++ {
		env.KeepTrace = true
		env.Transcript = *transcript
		res := hist.RunSeed(*prop, *seed, i, wo.Stats, env)
		wo.Hashes = append(wo.Hashes, res.ValueHash)
		wo.RawHashes = append(wo.RawHashes, res.RawHash)
		wo.Nontrivial = append(wo.Nontrivial, res.Evals > 0)
		wo.Known = append(wo.Known, res.Known...)
		wo.Done = i + 1
		if res.Violation != nil {
			res.Trace.Prelude = history
			wo.Violations = append(wo.Violations, res)
			break
		}
		history = append(history, &hist.Trace{Kind: "hist", Prop: res.Trace.Prop, NP: res.Trace.NP, NS: res.Trace.NS, NE: res.Trace.NE, Opts: res.Trace.Opts, Calls: res.Trace.Calls, RunIdx: res.Idx})
		if len(wo.Samples) < *samples || *transcript {
			wo.Samples = append(wo.Samples, res)
		} else {
			res.Trace = nil
		}
	}
	b, _ := json.Marshal(wo)
	if *out == "" {
		os.Stdout.Write(b)
		return
	}
	if err := os.WriteFile(*out, b, 0o644); err != nil {
		fatal2("%v", err)
	}
}

func cmdReplay(args []string) {
	fs := flag.NewFlagSet("replay", flag.ExitOnError)
	path := fs.String("trace", "", "trace file")
	known := fs.String("known", "", "known findings file")
	transcript := fs.Bool("transcript", false, "print the transcript")
	fs.Parse(args)
	if err := hist.InitNoLibrary(); err != nil {
		if err := hist.Init(); err != nil {
			fatal2("%v", err)
		}
	}
	b, err := os.ReadFile(*path)
	if err != nil {
		fatal2("%v", err)
	}
	var t hist.Trace
	if err := json.Unmarshal(b, &t); err != nil {
		fatal2("bad trace: %v", err)
	}
	env := &hist.Env{Known: loadKnown(*known), Build: buildName(), PkgSnap: pkgSnapHook(), Transcript: *transcript}
	res := hist.Replay(&t, hist.NewStats(), env)
	res.Trace = nil
	ob, _ := json.Marshal(res)
	fmt.Println(string(ob))
	if res.Violation != nil {
		os.Exit(1)
	}
}
