package main

func cmdSelftest(args []string)  { inconclusive("selftest not built yet") }
