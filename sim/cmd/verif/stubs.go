package main

func checkC18(ca *checkArgs) int { inconclusive("C18 not built yet"); return 2 }
func checkC20(ca *checkArgs) int { inconclusive("C20 not built yet"); return 2 }
func replayC18(path string) int  { inconclusive("C18 not built yet"); return 2 }
func replayC20(path string) int  { inconclusive("C20 not built yet"); return 2 }
func cmdSelftest(args []string)  { inconclusive("selftest not built yet") }
func makeOverlay(yields bool) string { inconclusive("overlay not built yet"); return "" }
