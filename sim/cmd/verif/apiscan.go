package main

import (
	"go/ast"
	"go/parser"
	"go/token"
	"os"
	"path/filepath"
	"sort"
	"strings"
)

// The operation alphabet of the history simulator is closed by reflection over
// the METHODS of *Point, *Scalar and *field.Element. Reflection cannot list
// package-level functions or new types, so the driver scans the sources of the
// tree being checked and lists every exported function and type that the
// simulator does not know: they are not driven, and the evidence says so.
var knownFuncs = map[string]bool{
	"edwards25519.NewIdentityPoint": true, "edwards25519.NewGeneratorPoint": true, "edwards25519.NewScalar": true,
}
var knownTypes = map[string]bool{"edwards25519.Point": true, "edwards25519.Scalar": true, "field.Element": true}

func undrivenAPI() []string {
	var out []string
	for _, pk := range []struct{ dir, name string }{{repoDir, "edwards25519"}, {filepath.Join(repoDir, "field"), "field"}} {
		ents, err := os.ReadDir(pk.dir)
		if err != nil {
			continue
		}
		fset := token.NewFileSet()
		for _, e := range ents {
			n := e.Name()
			if e.IsDir() || !strings.HasSuffix(n, ".go") || strings.HasSuffix(n, "_test.go") {
				continue
			}
			f, err := parser.ParseFile(fset, filepath.Join(pk.dir, n), nil, parser.SkipObjectResolution)
			if err != nil || f.Name.Name != pk.name {
				continue
			}
			for _, d := range f.Decls {
				switch d := d.(type) {
				case *ast.FuncDecl:
					if d.Recv == nil && d.Name.IsExported() && !knownFuncs[pk.name+"."+d.Name.Name] {
						out = append(out, "func "+pk.name+"."+d.Name.Name)
					}
				case *ast.GenDecl:
					if d.Tok != token.TYPE {
						continue
					}
					for _, s := range d.Specs {
						if ts, ok := s.(*ast.TypeSpec); ok && ts.Name.IsExported() && !knownTypes[pk.name+"."+ts.Name.Name] {
							out = append(out, "type "+pk.name+"."+ts.Name.Name)
						}
					}
				}
			}
		}
	}
	sort.Strings(out)
	// the same name may be declared once per build configuration
	uniq := []string{}
	for i, s := range out {
		if i == 0 || s != out[i-1] {
			uniq = append(uniq, s)
		}
	}
	return uniq
}
