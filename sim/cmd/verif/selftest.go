package main

import (
	"encoding/json"
	"fmt"
	"os"
	"os/exec"
	"path/filepath"
	"strconv"
	"strings"
	"time"
)

// selftest: determinism of the simulator. Same seed => same event log, across
// repeated executions, GOMAXPROCS 1/4/16, chunkings of the run range, and (for
// the scheduler) the plain and the -race build.
func cmdSelftest(args []string) {
	mkScratch()
	defer cleanup()
	start := time.Now()
	seed := envSeed()
	nHist, nSched := 40, 12
	if len(args) > 0 && args[0] == "--thorough" {
		nHist, nSched = 200, 40
	}
	bin := build("edsim_default")
	ovA := makeOverlay(false)
	binA := build("edsim_acc", "-tags", "verif", "-overlay", ovA)
	histRun := func(b, prop string, from, to int, gmp int) []string {
		out := filepath.Join(scratch, "st.json")
		cmd := exec.Command(b, "hist", "-prop", prop, "-seed", strconv.FormatUint(seed, 10), "-from", strconv.Itoa(from), "-to", strconv.Itoa(to), "-out", out)
		cmd.Env = append(os.Environ(), "GOMAXPROCS="+strconv.Itoa(gmp))
		if ob, err := cmd.CombinedOutput(); err != nil {
			inconclusive("selftest worker failed: %v %s", err, ob)
		}
		data, _ := os.ReadFile(out)
		var wo workerOut
		if json.Unmarshal(data, &wo) != nil {
			inconclusive("selftest: unreadable worker output")
		}
		if len(wo.Violations) > 0 {
			inconclusive("selftest: a run reported a violation; run the checks first")
		}
		return wo.RawHashes
	}
	bad := 0
	for _, prop := range []string{"C01", "C05", "C09", "C11", "C12", "C14", "C15", "C19", "C20"} {
		b := bin
		if prop == "C19" {
			b = binA
		}
		ref := histRun(b, prop, 0, nHist, 2)
		for _, g := range []int{1, 4, 16} {
			for rep := 0; rep < 2; rep++ {
				got := histRun(b, prop, 0, nHist, g)
				if strings.Join(got, ",") != strings.Join(ref, ",") {
					fmt.Printf("DETERMINISM MISMATCH: %s GOMAXPROCS=%d repeat %d\n", prop, g, rep)
					bad++
				}
			}
		}
		// chunking independence: the same indices in four processes
		var chunks []string
		q := nHist / 4
		for k := 0; k < 4; k++ {
			chunks = append(chunks, histRun(b, prop, k*q, (k+1)*q, 4)...)
		}
		if strings.Join(chunks, ",") != strings.Join(ref[:4*q], ",") {
			fmt.Printf("DETERMINISM MISMATCH: %s results depend on how runs are grouped into processes\n", prop)
			bad++
		}
		fmt.Printf("selftest %s: %d runs x 7 executions + 4 chunked: identical raw event-log hashes\n", prop, nHist)
	}
	ovY := makeOverlay(true)
	binP := build("edsim_sched", "-tags", "verif", "-overlay", ovY)
	binR := build("edsim_sched_race", "-race", "-tags", "verif", "-overlay", ovY)
	schedRun := func(b string, idx, gmp int) string {
		cmd := exec.Command(b, "sched", "-seed", strconv.FormatUint(seed, 10), "-idx", strconv.Itoa(idx), "-small")
		cmd.Env = append(os.Environ(), "GOMAXPROCS="+strconv.Itoa(gmp), "GORACE=halt_on_error=1 atexit_sleep_ms=0")
		out, err := cmd.Output()
		if err != nil {
			inconclusive("selftest sched run failed: %v %s", err, out)
		}
		var so schedOut
		lines := strings.Split(strings.TrimSpace(string(out)), "\n")
		if json.Unmarshal([]byte(lines[len(lines)-1]), &so) != nil {
			inconclusive("selftest: unreadable sched output")
		}
		return so.Hash + "/" + so.SwitchHash + "/" + strconv.FormatInt(so.Stats["yields"], 10)
	}
	for i := 0; i < nSched; i++ {
		ref := schedRun(binP, i, 2)
		for _, b := range []string{binP, binR} {
			for _, g := range []int{1, 4, 16} {
				for rep := 0; rep < 2; rep++ {
					if got := schedRun(b, i, g); got != ref {
						fmt.Printf("DETERMINISM MISMATCH: sched run %d build=%s GOMAXPROCS=%d: %s vs %s\n", i, filepath.Base(b), g, got, ref)
						bad++
					}
				}
			}
		}
	}
	fmt.Printf("selftest C18: %d seeds x 2 builds (plain, -race) x GOMAXPROCS 1/4/16 x 2 repeats: identical event logs\n", nSched)
	cleanup()
	if bad > 0 {
		fmt.Printf("INCONCLUSIVE: determinism self-test failed (%d mismatches)\n", bad)
		os.Exit(2)
	}
	fmt.Printf("selftest OK in %.1fs\n", time.Since(start).Seconds())
}
