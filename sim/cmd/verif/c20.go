package main

import (
	"encoding/json"
	"fmt"
	"os"
	"os/exec"
	"path/filepath"
	"strconv"
	"strings"
	"time"
)

// C20: the same seeds under the default (assembly) and the purego build.

func transcriptOf(bin, tracePath string) ([]string, bool) {
	cmd := exec.Command(bin, "replay", "-trace", tracePath, "-transcript", "-known", filepath.Join(verifDir, "known_findings.txt"))
	cmd.Env = append(os.Environ(), "GOMAXPROCS=1")
	out, _ := cmd.Output()
	lines := strings.Split(strings.TrimSpace(string(out)), "\n")
	var rr runResult
	if len(lines) == 0 || json.Unmarshal([]byte(lines[len(lines)-1]), &rr) != nil {
		return nil, false
	}
	return rr.Transcript, true
}

func firstDiff(a, b []string) (int, string, string) {
	for i := 0; i < len(a) || i < len(b); i++ {
		var x, y string
		if i < len(a) {
			x = a[i]
		}
		if i < len(b) {
			y = b[i]
		}
		if x != y {
			return i, x, y
		}
	}
	return -1, "", ""
}

func checkC20(ca *checkArgs) int {
	start := time.Now()
	n, budget := 60000, 60*time.Second
	if ca.tier == "thorough" {
		n, budget = 3000000, 20*time.Minute
	}
	if ca.runs > 0 {
		n = ca.runs
	}
	if ca.budget > 0 {
		budget = ca.budget
	}
	fmt.Printf("check C20 tier=%s seed=%d runs<=%d budget=%s\n", ca.tier, ca.seed, n, budget)
	binD := build("edsim_default")
	binP := build("edsim_purego", "-tags", "purego")
	for _, b := range []string{binD, binP} {
		if out, err := exec.Command(b, "selfcheck").CombinedOutput(); err != nil {
			fmt.Print(string(out))
			inconclusive("simulator self-check failed")
		}
	}
	// both builds run the same indices; the budget is split, and only indices
	// completed by both are compared
	deadline := time.Now().Add(budget / 2)
	bd := runBatch(binD, "C20", ca.seed, n, 200, ca.workers, deadline, nil, 2, true)
	if bd.workerErr != "" {
		inconclusive("%s", bd.workerErr)
	}
	nd := 0
	for i := uint64(0); ; i++ {
		if _, ok := bd.valByIdx[i]; !ok {
			break
		}
		nd++
	}
	if nd == 0 {
		inconclusive("no run completed")
	}
	bp := runBatch(binP, "C20", ca.seed, nd, 200, ca.workers, time.Now().Add(budget), nil, 0, true)
	if bp.workerErr != "" {
		inconclusive("%s", bp.workerErr)
	}
	compared := 0
	var diffs []uint64
	for i := uint64(0); i < uint64(nd); i++ {
		hp, ok := bp.valByIdx[i]
		if !ok {
			continue
		}
		compared++
		if hp != bd.valByIdx[i] {
			diffs = append(diffs, i)
		}
	}
	var replayFiles []string
	code := 0
	for k, idx := range diffs {
		if k >= 2 {
			break
		}
		path := reportC20(ca, binD, binP, idx)
		if path != "" {
			replayFiles = append(replayFiles, path)
			code = 1
		}
	}
	if c20Nondet != "" {
		inconclusive("the library's results are not a function of the trace, so a difference between the builds cannot be attributed to the build configuration: %s", c20Nondet)
	}
	if len(diffs) > 0 && code == 0 {
		inconclusive("transcript hashes differ between builds for %d runs but no differing step could be reproduced", len(diffs))
	}
	total := &batch{stats: bd.stats, runs: compared, hashes: bd.hashes, known: map[string]int{}, samples: bd.samples, wall: time.Since(start)}
	total.stats.merge(bp.stats)
	total.violations = make([]*runResult, len(diffs))
	plan := &histPlan{level: "exploration",
		rule: "one evaluation = one seed executed by both builds (default: amd64 assembly feMul/feSquare; purego: generic code) and compared: even run indices are field-operation histories over 8-16 Element slots, odd ones general point/scalar/field histories; compared per step: values (mod p / affine point / scalar) of every written slot, returned bytes, ints and errors, and the all-limbs-below-2^52 flag; non-trivial = at least one step executed; distinct = distinct value-level event-log hash"}
	var unreached []string
	for _, k := range []string{"op/Element.Multiply", "op/Element.Square", "op/Point.ScalarMult"} {
		if total.stats.C[k] == 0 {
			unreached = append(unreached, k)
		}
	}
	writeEvidence(ca, plan, total, map[string]int{"default": bd.runs, "purego": bp.runs, "compared_pairs": compared}, replayFiles, unreached)
	if code == 0 && len(unreached) > 0 {
		inconclusive("workload did not reach: %v", unreached)
	}
	if code == 0 {
		fmt.Printf("OK property=C20 held: %d seeds gave identical transcripts under both builds (%d steps) in %.1fs\n", compared, total.stats.C["steps"]/2, time.Since(start).Seconds())
	}
	return code
}

// fetchTrace re-runs one index and returns its trace (JSON object).
func fetchTrace(bin string, seed, idx uint64) map[string]interface{} {
	out := filepath.Join(scratch, "fetch.json")
	cmd := exec.Command(bin, "hist", "-prop", "C20", "-seed", strconv.FormatUint(seed, 10), "-from", strconv.FormatUint(idx, 10), "-to", strconv.FormatUint(idx+1, 10), "-samples", "1", "-out", out)
	if b, err := cmd.CombinedOutput(); err != nil {
		inconclusive("re-running run %d failed: %v %s", idx, err, b)
	}
	data, _ := os.ReadFile(out)
	var wo workerOut
	if json.Unmarshal(data, &wo) != nil {
		return nil
	}
	all := append(wo.Samples, wo.Violations...)
	for _, s := range all {
		var rr runResult
		if json.Unmarshal(s, &rr) == nil && rr.Trace != nil {
			var t map[string]interface{}
			json.Unmarshal(rr.Trace, &t)
			return t
		}
	}
	return nil
}

func c20Differs(binD, binP string, tr map[string]interface{}, calls []interface{}) (int, string, string, bool) {
	c := map[string]interface{}{}
	for k, v := range tr {
		c[k] = v
	}
	c["calls"] = calls
	tmp := filepath.Join(scratch, "c20cand.json")
	b, _ := json.Marshal(c)
	os.WriteFile(tmp, b, 0o644)
	ta, ok1 := transcriptOf(binD, tmp)
	tb, ok2 := transcriptOf(binP, tmp)
	if !ok1 || !ok2 {
		return -1, "", "", false
	}
	i, x, y := firstDiff(ta, tb)
	return i, x, y, i >= 0
}

// c20Nondet is set when the same-build control of reportC20 failed.
var c20Nondet string

func reportC20(ca *checkArgs, binD, binP string, idx uint64) string {
	tr := fetchTrace(binD, ca.seed, idx)
	if tr == nil {
		return ""
	}
	calls, _ := tr["calls"].([]interface{})
	step, x, y, differs := c20Differs(binD, binP, tr, calls)
	if !differs {
		return ""
	}
	// control: two processes of the SAME build. If they disagree too, the library
	// is not a deterministic function of the trace (randomness drawn outside the
	// entropy seam, e.g. a generator keyed at package initialisation) and the
	// difference cannot be attributed to the build configuration.
	if _, cx, cy, d := c20Differs(binD, binD, tr, calls); d {
		c20Nondet = fmt.Sprintf("run %d: two processes of the default build disagree with each other (%s | %s)", idx, cx, cy)
		return ""
	}
	if step+1 < len(calls) {
		calls = calls[:step+1]
	}
	// ddmin
	deadline := time.Now().Add(60 * time.Second)
	tries := 0
	n := 2
	for len(calls) >= 2 && tries < 300 && time.Now().Before(deadline) {
		chunk := (len(calls) + n - 1) / n
		reduced := false
		for i := 0; i < len(calls); i += chunk {
			j := i + chunk
			if j > len(calls) {
				j = len(calls)
			}
			cand := append(append([]interface{}{}, calls[:i]...), calls[j:]...)
			tries++
			if len(cand) > 0 {
				if _, _, _, d := c20Differs(binD, binP, tr, cand); d {
					calls = cand
					if n > 2 {
						n--
					}
					reduced = true
					break
				}
			}
		}
		if !reduced {
			if chunk == 1 {
				break
			}
			n *= 2
			if n > len(calls) {
				n = len(calls)
			}
		}
	}
	step, x, y, _ = c20Differs(binD, binP, tr, calls)
	tr["calls"] = calls
	tr["kind"] = "c20"
	tr["note"] = fmt.Sprintf("minimised by ddmin in %d candidate replays under both builds", tries)
	tr["violation"] = map[string]interface{}{"property": "C20", "oracle": "builds-disagree", "key": "builds-disagree", "step": step,
		"detail": fmt.Sprintf("step %d differs: default build: %s | purego build: %s", step, x, y)}
	dir := filepath.Join(outDir, "replays", "C20")
	os.MkdirAll(dir, 0o755)
	path := filepath.Join(dir, fmt.Sprintf("builds-disagree_seed%d_run%d.json", ca.seed, idx))
	b, _ := json.MarshalIndent(tr, "", " ")
	os.WriteFile(path, b, 0o644)
	fmt.Printf("violation detail: first differing step %d\n  default: %s\n  purego:  %s\n", step, x, y)
	fmt.Printf("minimised trace: %d steps\n", len(calls))
	fmt.Printf("VIOLATION property=C20 replay=%s\n", path)
	return path
}

func replayC20(path string) int {
	binD := build("edsim_default")
	binP := build("edsim_purego", "-tags", "purego")
	ta, ok1 := transcriptOf(binD, path)
	tb, ok2 := transcriptOf(binP, path)
	if !ok1 || !ok2 {
		inconclusive("could not replay %s under both builds", path)
	}
	i, x, y := firstDiff(ta, tb)
	if i < 0 {
		fmt.Printf("both builds give identical transcripts (%d steps): no violation on this tree\n", len(ta))
		return 0
	}
	fmt.Printf("reproduced: step %d differs\n  default: %s\n  purego:  %s\n", i, x, y)
	fmt.Printf("VIOLATION property=C20 replay=%s\n", path)
	return 1
}
