package main

import (
	"context"
	"encoding/json"
	"fmt"
	"os"
	"os/exec"
	"path/filepath"
	"sort"
	"strconv"
	"strings"
	"sync"
	"time"
)

// makeOverlay runs the instrumenter on /repo's working tree and returns the
// path of the overlay file.
func makeOverlay(yields bool) string { return makeOverlayTags(yields, "") }

func makeOverlayTags(yields bool, tags string) string {
	dir := filepath.Join(scratch, "overlay_accessor"+tags)
	args := []string{"-repo", repoDir, "-out", dir}
	if yields {
		dir = filepath.Join(scratch, "overlay_yields"+tags)
		args = []string{"-repo", repoDir, "-out", dir, "-yields"}
	}
	if tags != "" {
		args = append(args, "-tags", tags)
	}
	ov := filepath.Join(dir, "overlay.json")
	if _, err := os.Stat(ov); err == nil {
		return ov
	}
	cmd := exec.Command(filepath.Join(verifDir, "bin", "instrument"), args...)
	cmd.Env = goEnv()
	cmd.Dir = repoDir // module-internal packages resolve from inside the module
	out, err := cmd.CombinedOutput()
	if err != nil {
		inconclusive("instrumenting /repo failed (does it compile?): %v\n%s", err, out)
	}
	fmt.Print(string(out))
	return ov
}

type schedOut struct {
	Idx         uint64           `json:"run_index"`
	Seed        uint64           `json:"seed"`
	Hash        string           `json:"hash"`
	SwitchHash  string           `json:"switch_hash"`
	Violation   *violation       `json:"violation"`
	Trace       json.RawMessage  `json:"trace"`
	Stats       map[string]int64 `json:"stats"`
	SwitchSites []int            `json:"switch_sites"`
	SiteTotals  [3]int           `json:"site_totals"`
}

type schedBatch struct {
	switchSites map[int]bool
	siteTotals  [3]int
	runs        int
	stats       map[string]int64
	switchSeqs  map[string]bool
	hashes      map[string]bool
	violations  []*schedOut
	races       []raceHit
	err         string
	samples     []json.RawMessage
	wall        time.Duration
}

type raceHit struct {
	idx    uint64
	report string
}

func raceReport(dir string, prefix string) string {
	m, _ := filepath.Glob(filepath.Join(dir, prefix+".*"))
	var sb strings.Builder
	for _, f := range m {
		b, _ := os.ReadFile(f)
		sb.Write(b)
		os.Remove(f)
	}
	return sb.String()
}

// runSchedBatch runs indices [0,n), one fresh process per run.
func runSchedBatch(bin string, seed uint64, n, workers int, deadline time.Time, race, small bool) *schedBatch {
	b := &schedBatch{stats: map[string]int64{}, switchSeqs: map[string]bool{}, hashes: map[string]bool{}, switchSites: map[int]bool{}}
	start := time.Now()
	jobs := make(chan int, 1024)
	go func() {
		for i := 0; i < n; i++ {
			jobs <- i
		}
		close(jobs)
	}()
	var mu sync.Mutex
	var wg sync.WaitGroup
	for w := 0; w < workers; w++ {
		wg.Add(1)
		go func(w int) {
			defer wg.Done()
			for i := range jobs {
				if time.Now().After(deadline) {
					continue
				}
				mu.Lock()
				stop := len(b.violations)+len(b.races) >= 6 || b.err != ""
				mu.Unlock()
				if stop {
					continue
				}
				args := []string{"sched", "-seed", strconv.FormatUint(seed, 10), "-idx", strconv.Itoa(i)}
				if small {
					args = append(args, "-small")
				}
				if i < 2 {
					args = append(args, "-keeptrace")
				}
				ctx, cancel := context.WithTimeout(context.Background(), 150*time.Second)
				cmd := exec.CommandContext(ctx, bin, args...)
				logPrefix := fmt.Sprintf("race_%d_%d", w, i)
				cmd.Env = append(os.Environ(), "GOMAXPROCS=2", "GORACE=halt_on_error=1 atexit_sleep_ms=0 log_path="+filepath.Join(scratch, logPrefix))
				out, err := cmd.Output()
				cancel()
				code := 0
				if err != nil {
					if ee, ok := err.(*exec.ExitError); ok {
						code = ee.ExitCode()
					} else {
						code = -1
					}
				}
				mu.Lock()
				switch {
				case code == 66 && race:
					b.races = append(b.races, raceHit{uint64(i), raceReport(scratch, logPrefix)})
					b.runs++
				case code == 0 || code == 1:
					var so schedOut
					lines := strings.Split(strings.TrimSpace(string(out)), "\n")
					if json.Unmarshal([]byte(lines[len(lines)-1]), &so) != nil {
						if b.err == "" {
							b.err = "unreadable output of run " + strconv.Itoa(i) + ": " + tail(string(out), 500)
						}
						break
					}
					b.runs++
					for k, v := range so.Stats {
						b.stats[k] += v
					}
					b.switchSeqs[so.SwitchHash] = true
					for _, x := range so.SwitchSites {
						b.switchSites[x] = true
					}
					b.siteTotals = so.SiteTotals
					b.hashes[so.Hash] = true
					if so.Violation != nil {
						b.violations = append(b.violations, &so)
					} else if so.Trace != nil && len(b.samples) < 2 {
						b.samples = append(b.samples, so.Trace)
					}
				default:
					if b.err == "" {
						b.err = fmt.Sprintf("run %d exited with %d: %s %s", i, code, tail(string(out), 800), tail(raceReport(scratch, logPrefix), 3000))
					}
				}
				mu.Unlock()
			}
		}(w)
	}
	wg.Wait()
	b.wall = time.Since(start)
	sort.Slice(b.violations, func(i, j int) bool { return b.violations[i].Idx < b.violations[j].Idx })
	sort.Slice(b.races, func(i, j int) bool { return b.races[i].idx < b.races[j].idx })
	return b
}

// libraryFrames reports whether a race report has a frame in library code.
// libraryFrames reports whether a race report concerns library code: the
// accessing statement (top frame) of at least one of its two stacks must be in
// non-generated library source. A report whose accesses are both in harness or
// generated code (library frames only further up the stack) is not a finding.
func libraryFrames(report string) bool {
	lines := strings.Split(report, "\n")
	isAccess := func(t string) bool {
		return strings.HasPrefix(t, "Read at ") || strings.HasPrefix(t, "Write at ") || strings.HasPrefix(t, "Previous read at ") ||
			strings.HasPrefix(t, "Previous write at ") || strings.HasPrefix(t, "Atomic ") || strings.HasPrefix(t, "Previous atomic ")
	}
	for i, l := range lines {
		if !isAccess(strings.TrimSpace(l)) {
			continue
		}
		// walk down the stack: "  func()" / "      file:line +0x.." pairs; frames of the Go
		// runtime and standard library (map access, memmove, atomics) are skipped, the
		// first remaining frame is the accessing statement
		for j := i + 1; j+1 < len(lines); j += 2 {
			fn := strings.TrimSpace(lines[j])
			loc := strings.TrimSpace(lines[j+1])
			if fn == "" || isAccess(fn) || strings.HasPrefix(fn, "Goroutine ") || strings.HasPrefix(fn, "==") {
				break
			}
			if strings.HasPrefix(loc, "/usr/lib/go") || strings.HasPrefix(loc, "/opt/veriftools/go") || strings.Contains(loc, "/go/src/") ||
				strings.HasPrefix(fn, "runtime.") || strings.HasPrefix(fn, "sync/atomic.") || strings.HasPrefix(fn, "internal/") {
				continue
			}
			if strings.HasPrefix(loc, repoDir+"/") && !strings.Contains(loc, "zz_verif_gen.go") {
				return true
			}
			break
		}
	}
	return false
}

// runTrace replays a schedule; a replay that shows nothing is retried (a library
// that uses sync.Pool or similar runtime-managed state is not fully under the
// simulator's control).
func runTrace(bin, path string, race bool) (int, *schedOut, string) {
	var code int
	var so *schedOut
	var rep string
	for attempt := 0; attempt < 3; attempt++ {
		code, so, rep = runTraceOnce(bin, path, race)
		if code == 1 || code == 66 {
			break
		}
	}
	return code, so, rep
}

func runTraceOnce(bin, path string, race bool) (int, *schedOut, string) {
	cmd := exec.Command(bin, "sched", "-trace", path)
	logPrefix := "race_replay"
	cmd.Env = append(os.Environ(), "GOMAXPROCS=2", "GORACE=halt_on_error=1 atexit_sleep_ms=0 log_path="+filepath.Join(scratch, logPrefix))
	out, err := cmd.Output()
	code := 0
	if err != nil {
		if ee, ok := err.(*exec.ExitError); ok {
			code = ee.ExitCode()
		} else {
			code = -1
		}
	}
	rep := raceReport(scratch, logPrefix)
	var so schedOut
	lines := strings.Split(strings.TrimSpace(string(out)), "\n")
	if len(lines) > 0 && json.Unmarshal([]byte(lines[len(lines)-1]), &so) == nil {
		return code, &so, rep
	}
	return code, nil, rep
}

// minimiseSched: ddmin over the list of scheduling decisions.
func minimiseSched(bin string, tr map[string]interface{}, race bool, oracle string) map[string]interface{} {
	decs, _ := tr["decisions"].([]interface{})
	tmp := filepath.Join(scratch, "schedcand.json")
	deadline := time.Now().Add(90 * time.Second)
	tries := 0
	test := func(ds []interface{}) bool {
		if tries >= 200 || time.Now().After(deadline) {
			return false
		}
		tries++
		c := map[string]interface{}{}
		for k, v := range tr {
			c[k] = v
		}
		c["decisions"] = ds
		b, _ := json.Marshal(c)
		os.WriteFile(tmp, b, 0o644)
		code, so, rep := runTrace(bin, tmp, race)
		if race {
			return code == 66 && libraryFrames(rep)
		}
		return code == 1 && so != nil && so.Violation != nil && so.Violation.Oracle == oracle
	}
	// pre-emptions only (kind 0/3); blocking/finish choices are kept: dropping them falls back to a default choice
	n := 2
	for len(decs) >= 2 {
		chunk := (len(decs) + n - 1) / n
		reduced := false
		for i := 0; i < len(decs); i += chunk {
			j := i + chunk
			if j > len(decs) {
				j = len(decs)
			}
			cand := append(append([]interface{}{}, decs[:i]...), decs[j:]...)
			if test(cand) {
				decs = cand
				if n > 2 {
					n--
				}
				reduced = true
				break
			}
		}
		if !reduced {
			if chunk == 1 {
				break
			}
			n *= 2
			if n > len(decs) {
				n = len(decs)
			}
		}
		if tries >= 200 || time.Now().After(deadline) {
			break
		}
	}
	out := map[string]interface{}{}
	for k, v := range tr {
		out[k] = v
	}
	out["decisions"] = decs
	out["note"] = fmt.Sprintf("schedule minimised by ddmin over switch decisions in %d candidate replays", tries)
	return out
}

func checkC18(ca *checkArgs) int {
	start := time.Now()
	nPlain, nRace := 2500, 250
	budgetPlain, budgetRace := 40*time.Second, 30*time.Second
	if ca.tier == "thorough" {
		nPlain, nRace = 300000, 20000
		budgetPlain, budgetRace = 22*time.Minute, 12*time.Minute
	}
	if ca.runs > 0 {
		nPlain, nRace = ca.runs, ca.runs/8+1
	}
	if ca.budget > 0 {
		budgetPlain, budgetRace = ca.budget*2/3, ca.budget/3
	}
	fmt.Printf("check C18 tier=%s seed=%d plain runs<=%d race runs<=%d\n", ca.tier, ca.seed, nPlain, nRace)
	ov := makeOverlay(true)
	binP := build("edsim_sched", "-tags", "verif", "-overlay", ov)
	binR := build("edsim_sched_race", "-race", "-tags", "verif", "-overlay", ov)
	// the portable configuration is also exercised concurrently (a smaller wave)
	ovP := makeOverlayTags(true, "purego")
	binPP := build("edsim_sched_purego", "-tags", "verif,purego", "-overlay", ovP)
	if out, err := exec.Command(binP, "selfcheck").CombinedOutput(); err != nil {
		fmt.Print(string(out))
		inconclusive("simulator self-check failed")
	}
	fmt.Printf("instrumented and built (plain, -race) from /repo in %.1fs\n", time.Since(start).Seconds())

	var problems []string
	pb := runSchedBatch(binP, ca.seed, nPlain, ca.workers, time.Now().Add(budgetPlain), false, false)
	rb := runSchedBatch(binR, ca.seed, nRace, ca.workers, time.Now().Add(budgetRace), true, true)
	ppb := runSchedBatch(binPP, ca.seed+1, nPlain/5+1, ca.workers, time.Now().Add(budgetPlain/4), false, false)
	for name, b := range map[string]*schedBatch{"plain": pb, "race": rb, "purego": ppb} {
		if b.err != "" {
			problems = append(problems, name+" wave: "+b.err)
		} else if b.runs < 10 && len(b.violations)+len(b.races) == 0 {
			problems = append(problems, fmt.Sprintf("only %d runs completed in the %s wave within the budget", b.runs, name))
		}
	}
	sort.Strings(problems)
	code := 0
	var replayFiles []string
	dir := filepath.Join(outDir, "replays", "C18")
	seen := map[string]bool{}
	report := func(v *schedOut, bin string, race bool) {
		if v.Violation == nil || seen[v.Violation.Key] || len(seen) >= 3 {
			return
		}
		seen[v.Violation.Key] = true
		var tr map[string]interface{}
		json.Unmarshal(v.Trace, &tr)
		min := minimiseSched(bin, tr, false, v.Violation.Oracle)
		os.MkdirAll(dir, 0o755)
		path := filepath.Join(dir, fmt.Sprintf("%s_seed%d_run%d.json", sanitize(v.Violation.Oracle), ca.seed, v.Idx))
		write := func(t map[string]interface{}) {
			b, _ := json.MarshalIndent(t, "", " ")
			os.WriteFile(path, b, 0o644)
		}
		write(min)
		c, so, _ := runTrace(bin, path, false)
		if !(c == 1 && so != nil && so.Violation != nil && so.Violation.Oracle == v.Violation.Oracle) {
			write(tr)
			c, so, _ = runTrace(bin, path, false)
			if !(c == 1 && so != nil && so.Violation != nil) {
				fmt.Printf("a C18 violation was observed but does not replay from its trace (kept at %s): %s\n", path, v.Violation.Detail)
				problems = append(problems, "a violation was observed but does not replay from its trace")
				return
			}
		}
		nd := 0
		if d, ok := min["decisions"].([]interface{}); ok {
			nd = len(d)
		}
		fmt.Printf("violation detail: %s\n", so.Violation.Detail)
		fmt.Printf("minimised schedule: %d switch decisions, oracle=%s\n", nd, so.Violation.Oracle)
		fmt.Printf("VIOLATION property=C18 replay=%s\n", path)
		replayFiles = append(replayFiles, path)
		code = 1
	}
	for _, v := range pb.violations {
		report(v, binP, false)
	}
	for _, v := range rb.violations {
		report(v, binR, false)
	}
	for _, v := range ppb.violations {
		var tr map[string]interface{}
		json.Unmarshal(v.Trace, &tr)
		tr["build"] = "purego"
		v.Trace, _ = json.Marshal(tr)
		report(v, binPP, false)
	}
	// data races under controlled schedules
	harnessOnly := 0
	reported := 0
	for _, r := range rb.races {
		if reported >= 2 {
			break
		}
		if !libraryFrames(r.report) {
			harnessOnly++
			fmt.Printf("race report without library frames (run %d):\n%s\n", r.idx, tail(r.report, 3000))
			continue
		}
		// explicit trace from the plain build (same seed, same schedule), then replay under -race
		out := filepath.Join(scratch, "racetrace.json")
		cmd := exec.Command(binP, "sched", "-seed", strconv.FormatUint(ca.seed, 10), "-idx", strconv.FormatUint(r.idx, 10), "-small", "-keeptrace", "-out", out)
		cmd.Env = append(os.Environ(), "GOMAXPROCS=2")
		cmd.Run()
		data, _ := os.ReadFile(out)
		var so schedOut
		if json.Unmarshal(data, &so) != nil || so.Trace == nil {
			problems = append(problems, fmt.Sprintf("could not obtain the explicit trace of racy run %d", r.idx))
			continue
		}
		var tr map[string]interface{}
		json.Unmarshal(so.Trace, &tr)
		tr["race"] = true
		os.MkdirAll(dir, 0o755)
		path := filepath.Join(dir, fmt.Sprintf("data-race_seed%d_run%d.json", ca.seed, r.idx))
		write := func(t map[string]interface{}) {
			b, _ := json.MarshalIndent(t, "", " ")
			os.WriteFile(path, b, 0o644)
		}
		tr["violation"] = map[string]interface{}{"property": "C18", "oracle": "data-race", "key": "data-race", "detail": firstLines(r.report, 40)}
		min := minimiseSched(binR, tr, true, "")
		write(min)
		c, _, rep := runTrace(binR, path, true)
		if !(c == 66 && libraryFrames(rep)) {
			write(tr)
			c, _, rep = runTrace(binR, path, true)
			if !(c == 66 && libraryFrames(rep)) {
				fmt.Printf("race report that does not replay (run %d):\n%s\n", r.idx, tail(r.report, 3000))
				problems = append(problems, "a data race was reported but does not replay from its trace")
				continue
			}
		}
		os.WriteFile(strings.TrimSuffix(path, ".json")+".race.txt", []byte(rep), 0o644)
		fmt.Printf("violation detail: the race detector, under a simulator-controlled schedule, reports:\n%s\n", firstLines(rep, 30))
		fmt.Printf("VIOLATION property=C18 replay=%s\n", path)
		replayFiles = append(replayFiles, path)
		code = 1
		reported++
	}
	if harnessOnly > 0 {
		problems = append(problems, "race reports whose accesses are not in library code (harness defect)")
	}
	// evidence
	var unreached []string
	// reach requirements are scheme-agnostic and conditional: they only apply when
	// the tree has first-use code / blocking synchronisation at all (an eager init()
	// has neither, and is a correct implementation)
	if pb.stats["runs_with_first_use_code"] > 0 && pb.stats["gate_calls_open"] > 20 && pb.stats["gate_blocks"] == 0 {
		unreached = append(unreached, "a task reached a sync.Once/Mutex while another task was inside it (gate_blocks)")
	}
	if pb.stats["runs_with_first_use_code"] > 0 && pb.stats["preempt_inside_first_use_code"] == 0 {
		unreached = append(unreached, "a pre-emption landed inside first-use-only code (table construction)")
	}
	var samples []interface{}
	for _, s := range pb.samples {
		var t map[string]interface{}
		json.Unmarshal(s, &t)
		if d, ok := t["decisions"].([]interface{}); ok && len(d) > 20 {
			t["decisions"] = d[:20]
			t["note"] = fmt.Sprintf("first 20 of %d switch decisions", len(d))
		}
		samples = append(samples, t)
	}
	if len(samples) == 0 {
		samples = append(samples, "no sample kept")
	}
	wall := time.Since(start).Seconds()
	ev := map[string]interface{}{
		"property_id": "C18", "tier": ca.tier, "seed": ca.seed, "level": "exploration",
		"coverage": map[string]interface{}{
			"evaluations":                     pb.runs + rb.runs,
			"distinct_nontrivial":             len(pb.switchSeqs) + len(rb.switchSeqs),
			"rule":                            "one evaluation = one fresh OS process (cold tables) running 2-8 tasks (real goroutines, 1-3 operations each, biased to first use of both lazy basepoint tables) under the seeded scheduler, which decides every context switch at statement-level yield points spliced into a build-time copy of both packages; policies: random (hot/cold site probabilities) and PCT-style (1-3 forced pre-emptions); followed by a sequential warm re-execution and a sequential cold reference process; non-trivial and distinct = distinct switch sequence (hash over (site, from, to) of every context switch), counted separately for the plain and the -race wave and summed",
			"samples":                         samples,
			"plain_runs":                      pb.runs,
			"race_runs":                       rb.runs,
			"runs_per_hour":                   int(float64(pb.runs+rb.runs) / wall * 3600),
			"simulated_time":                  "the library has no clock; coverage is reported in yield points executed",
			"yield_points_executed":           pb.stats["yields"] + rb.stats["yields"],
			"context_switches":                pb.stats["switches"] + rb.stats["switches"],
			"distinct_switch_sequences_plain": len(pb.switchSeqs),
			"distinct_switch_sequences_race":  len(rb.switchSeqs),
			"distinct_event_logs":             len(pb.hashes),
			"distinct_sites_where_a_context_switch_happened": len(pb.switchSites),
			"yield_sites_total_hot_sync":                     pb.siteTotals,
			"fault_kinds_fired": map[string]int64{
				"preempt":                                          pb.stats["switches"] + rb.stats["switches"],
				"preempt_inside_first_use_code":                    pb.stats["preempt_inside_first_use_code"] + rb.stats["preempt_inside_first_use_code"],
				"preempt_inside_once_closure":                      pb.stats["preempt_inside_once_closure"] + rb.stats["preempt_inside_once_closure"],
				"first_use_attempt_while_construction_in_progress": pb.stats["gate_blocks"] + rb.stats["gate_blocks"],
				"cold_process":                                     int64(pb.runs + rb.runs),
			},
			"reach_probes": map[string]int64{
				"tasks_total":                              pb.stats["tasks"] + rb.stats["tasks"],
				"first_use_write_sites_checked":            pb.stats["first_use_write_sites"] + rb.stats["first_use_write_sites"],
				"runs_with_first_use_code":                 pb.stats["runs_with_first_use_code"] + rb.stats["runs_with_first_use_code"],
				"first_use_only_statements_cold_total":     pb.stats["first_use_only_statements_cold"] + rb.stats["first_use_only_statements_cold"],
				"first_use_only_statements_repeated_total": pb.stats["first_use_only_statements_repeated"] + rb.stats["first_use_only_statements_repeated"],
				"sync_gate_calls":                          pb.stats["gate_calls"] + rb.stats["gate_calls"],
				"runs_with_pre_roll":                       pb.stats["runs_with_pre_roll"] + rb.stats["runs_with_pre_roll"],
				"runs_with_2_or_more_overlapping_tasks":    pb.stats["runs_with_2_or_more_overlapping_tasks"] + rb.stats["runs_with_2_or_more_overlapping_tasks"],
				"runs_with_5_or_more_overlapping_tasks":    pb.stats["runs_with_5_or_more_overlapping_tasks"] + rb.stats["runs_with_5_or_more_overlapping_tasks"],
				"runs_with_9_or_more_overlapping_tasks":    pb.stats["runs_with_9_or_more_overlapping_tasks"],
				"runs_with_17_or_more_overlapping_tasks":   pb.stats["runs_with_17_or_more_overlapping_tasks"],
				"runs_with_33_or_more_overlapping_tasks":   pb.stats["runs_with_33_or_more_overlapping_tasks"],
				"runs_with_65_or_more_overlapping_tasks":   pb.stats["runs_with_65_or_more_overlapping_tasks"],
				"runs_with_129_or_more_overlapping_tasks":  pb.stats["runs_with_129_or_more_overlapping_tasks"],
			},
			"data_race_reports":  len(rb.races),
			"unreached_required": unreached,
			"replay_files":       replayFiles,
			"components": map[string]interface{}{
				"real":  []string{"the whole library built from /repo's working tree", "sync.Once / sync.Mutex (always executed, only when they cannot block)", "goroutines", "the Go race detector (race wave)"},
				"gated": []string{"blocking of sync.Once.Do and sync.(RW)Mutex is taken over by the scheduler"},
				"stub":  []string{},
			},
			"exhaustive": false,
		},
		"assumptions": append(append([]string{}, commonAssumptions...),
			"yield points are statement-granular: interleavings inside a single statement (and inside assembly) are only seen by the race detector wave",
			"the hand-off between tasks spins on a variable touched only in //go:norace functions, so the race detector sees exactly the library's own synchronisation",
			"library code that spawns goroutines or blocks on channels/Cond/WaitGroup is not controllable: such trees end INCONCLUSIVE (exit 2)"),
		"wall_s":     wall,
		"violations": len(pb.violations) + len(rb.violations) + len(rb.races) + len(ppb.violations),
	}
	writeEvidenceFile("C18", ev)
	if code == 0 && len(problems) > 0 {
		inconclusive("%s", strings.Join(problems, "; "))
	}
	if code == 0 && len(unreached) > 0 {
		inconclusive("schedules did not reach: %v", unreached)
	}
	if code == 0 {
		fmt.Printf("OK property=C18 held on %d plain + %d race + %d purego runs (%d yield points, %d context switches, %d distinct switch sequences) in %.1fs\n",
			pb.runs, rb.runs, ppb.runs, pb.stats["yields"]+rb.stats["yields"], pb.stats["switches"]+rb.stats["switches"], len(pb.switchSeqs)+len(rb.switchSeqs), wall)
	}
	return code
}

func firstLines(s string, n int) string {
	l := strings.Split(s, "\n")
	if len(l) > n {
		l = l[:n]
	}
	return strings.Join(l, "\n")
}

func replayC18(path string) int {
	data, _ := os.ReadFile(path)
	var t struct {
		Race  bool   `json:"race"`
		Build string `json:"build"`
	}
	json.Unmarshal(data, &t)
	ov := makeOverlay(true)
	var bin string
	if t.Build == "purego" {
		bin = build("edsim_sched_purego", "-tags", "verif,purego", "-overlay", makeOverlayTags(true, "purego"))
	} else if t.Race {
		bin = build("edsim_sched_race", "-race", "-tags", "verif", "-overlay", ov)
	} else {
		bin = build("edsim_sched", "-tags", "verif", "-overlay", ov)
	}
	code, so, rep := runTrace(bin, path, t.Race)
	switch {
	case t.Race && code == 66 && libraryFrames(rep):
		fmt.Printf("reproduced under -race with the recorded schedule:\n%s\n", firstLines(rep, 40))
		fmt.Printf("VIOLATION property=C18 replay=%s\n", path)
		return 1
	case code == 1 && so != nil && so.Violation != nil:
		fmt.Printf("reproduced: %s\n", so.Violation.Detail)
		fmt.Printf("VIOLATION property=C18 replay=%s\n", path)
		return 1
	case code == 0:
		fmt.Println("no violation on this tree")
		return 0
	}
	inconclusive("replay ended with exit code %d: %s", code, tail(rep, 2000))
	return 2
}
