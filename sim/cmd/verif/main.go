// verif is the driver: it rebuilds the simulator from /repo's working tree,
// fans seeds out over worker processes, minimises and records violations,
// and writes the evidence file.
//
//	verif check <ID> --tier quick|thorough
//	verif replay <file>
//	verif selftest
package main

import (
	"context"
	"encoding/json"
	"flag"
	"fmt"
	"os"
	"os/exec"
	"os/signal"
	"path/filepath"
	"reflect"
	"runtime"
	"sort"
	"strconv"
	"strings"
	"sync"
	"syscall"
	"time"
)

// verifDir is /verif. VERIF_HOME relocates it (only used to run long sweeps
// from a frozen snapshot of /verif while /verif itself is being edited; the
// registered commands never set it).
var (
	verifDir = "/verif"
	simDir   = "/verif/sim"
)

// repoDir is /repo. VERIF_REPO redirects the build to another checkout; it is
// only used for trying seeded changes in scratch worktrees without touching
// /repo (the registered commands never set it).
var repoDir = "/repo"

// outDir is where evidence and replay files go (VERIF_OUT redirects it for
// the same purpose).
var outDir = "/verif"

func init() {
	if h := os.Getenv("VERIF_HOME"); h != "" {
		verifDir = h
		simDir = filepath.Join(h, "sim")
		outDir = h
	}
	if r := os.Getenv("VERIF_REPO"); r != "" {
		repoDir = r
	}
	if o := os.Getenv("VERIF_OUT"); o != "" {
		outDir = o
	}
}

var modfileArgs []string

// modfile returns -modfile arguments when the build must use another checkout.
func modfile() []string {
	if repoDir == "/repo" {
		return nil
	}
	if modfileArgs != nil {
		return modfileArgs
	}
	mf := filepath.Join(scratch, "go.mod")
	content := "module verifsim\n\ngo 1.23\n\nrequire filippo.io/edwards25519 v0.0.0\n\nreplace filippo.io/edwards25519 => " + repoDir + "\n"
	os.WriteFile(mf, []byte(content), 0o644)
	os.WriteFile(filepath.Join(scratch, "go.sum"), nil, 0o644)
	modfileArgs = []string{"-modfile=" + mf}
	return modfileArgs
}

var scratch string

func inconclusive(format string, a ...interface{}) {
	fmt.Printf("INCONCLUSIVE: "+format+"\n", a...)
	cleanup()
	os.Exit(2)
}

func cleanup() {
	if scratch != "" {
		os.RemoveAll(scratch)
	}
}

func goEnv() []string {
	env := os.Environ()
	env = append(env, "GOFLAGS=-mod=mod", "GOPROXY=off", "GOSUMDB=off", "GOTOOLCHAIN=local", "CGO_ENABLED=1")
	return env
}

func mkScratch() {
	d, err := os.MkdirTemp("", "verif-")
	if err != nil {
		inconclusive("mktemp: %v", err)
	}
	scratch = d
	ch := make(chan os.Signal, 1)
	signal.Notify(ch, syscall.SIGINT, syscall.SIGTERM)
	go func() {
		<-ch
		cleanup()
		os.Exit(2)
	}()
}

// build compiles the simulator from /repo's current working tree.
func build(name string, args ...string) string {
	out := filepath.Join(scratch, name)
	a := append([]string{"build", "-o", out}, modfile()...)
	a = append(a, args...)
	a = append(a, "./cmd/edsim")
	cmd := exec.Command("go", a...)
	cmd.Dir = simDir
	cmd.Env = goEnv()
	b, err := cmd.CombinedOutput()
	if err != nil {
		inconclusive("building the simulator (%s) from /repo failed: %v\n%s", name, err, b)
	}
	return out
}

func main() {
	if len(os.Args) < 2 {
		fmt.Println("usage: verif check <ID> --tier quick|thorough | replay <file> | selftest")
		os.Exit(2)
	}
	switch os.Args[1] {
	case "check":
		cmdCheck(os.Args[2:])
	case "replay":
		cmdReplay(os.Args[2:])
	case "selftest":
		cmdSelftest(os.Args[2:])
	default:
		fmt.Println("unknown command")
		os.Exit(2)
	}
}

func envSeed() uint64 {
	if s := os.Getenv("VERIF_SEED"); s != "" {
		if v, err := strconv.ParseUint(s, 10, 64); err == nil {
			return v
		}
		if v, err := strconv.ParseInt(s, 10, 64); err == nil {
			return uint64(v)
		}
	}
	return 20261001
}

type checkArgs struct {
	id      string
	tier    string
	seed    uint64
	runs    int
	workers int
	budget  time.Duration
}

func cmdCheck(args []string) {
	if len(args) < 1 {
		inconclusive("check needs a property id")
	}
	id := args[0]
	fs := flag.NewFlagSet("check", flag.ExitOnError)
	tier := fs.String("tier", "", "quick or thorough")
	runs := fs.Int("runs", 0, "override the number of runs")
	workers := fs.Int("workers", 0, "worker processes")
	budget := fs.Duration("budget", 0, "override the wall-clock budget of the run phase")
	fs.Parse(args[1:])
	if *tier == "" {
		*tier = os.Getenv("VERIF_TIER")
	}
	if *tier == "" {
		*tier = "quick"
	}
	if *tier != "quick" && *tier != "thorough" {
		inconclusive("unknown tier %q", *tier)
	}
	if *workers == 0 {
		*workers = runtime.NumCPU()
	}
	ca := &checkArgs{id: id, tier: *tier, seed: envSeed(), runs: *runs, workers: *workers, budget: *budget}
	mkScratch()
	defer cleanup()
	var code int
	switch id {
	case "C18":
		code = checkC18(ca)
	case "C20":
		code = checkC20(ca)
	default:
		if _, ok := histPlans[id]; !ok {
			inconclusive("no check for property %q", id)
		}
		code = checkHist(ca)
	}
	cleanup()
	os.Exit(code)
}

// ---- history checks ----

type histPlan struct {
	level                   string
	quickRuns               int
	thorRuns                int
	chunk                   int
	quickBudget, thorBudget time.Duration
	builds                  []string // "default", "purego"
	instrumented            bool     // needs the in-package accessor (overlay build)
	required                []string // counters that must be non-zero (else exit 2)
	rule                    string
	assumptions             []string
}

var commonAssumptions = []string{
	"the observation channel (package alpha: unsafe reads guarded by a reflect layout check) and math/big are trusted",
	"curve constants p, l, d are written out in the harness, not copied from the library",
	"seeded sampling of histories: a clean batch is evidence, not proof",
}

var histPlans = map[string]*histPlan{
	"C01": {level: "exploration", quickRuns: 12000, thorRuns: 300000, chunk: 50, quickBudget: 60 * time.Second, thorBudget: 20 * time.Minute,
		builds: []string{"default"},
		required: []string{"oracle/C01", "probe/C01/n=0", "probe/C01/n>=3", "probe/C01/input_with_torsion", "probe/C01/Point.MultiScalarMult/recv=used", "probe/C01/Point.MultiScalarMult/recv=zero", "probe/C01/Point.MultiScalarMult/recv=aliased",
			"probe/C01/Point.VarTimeMultiScalarMult/recv=used", "probe/C01/Point.ScalarMult/recv=aliased", "probe/C01/Point.ScalarBaseMult/recv=used",
			"probe/C01/Point.VarTimeDoubleScalarBaseMult/recv=aliased"},
		rule: "one evaluation = one seeded history (8-45 steps over a pool of reused, aliasable Point/Scalar/Element slots, >= 40% scalar-multiplication steps, per-run swarm configuration); non-trivial = at least one scalar-multiplication step whose result was compared with the big.Int reference sum; distinct = distinct value-level event-log hash of the whole run"},
	"C05": {level: "exploration", quickRuns: 60000, thorRuns: 2000000, chunk: 100, quickBudget: 60 * time.Second, thorBudget: 20 * time.Minute,
		builds:   []string{"default"},
		required: []string{"oracle/C05", "probe/C05/small_order_axis_point"},
		rule:     "one evaluation = one seeded history of point operations, imports with scaled coordinates and decodes (incl. non-canonical encodings); after every step every changed (30% of runs: every) initialised point slot is encoded and compared with the canonical encoding computed from its own raw coordinates, then decoded again; non-trivial = at least one slot encoding checked; distinct = distinct value-level event-log hash"},
	"C09": {level: "exploration", quickRuns: 40000, thorRuns: 6000000, chunk: 1000, quickBudget: 45 * time.Second, thorBudget: 15 * time.Minute,
		builds:   []string{"default", "purego"},
		required: []string{"oracle/C09", "probe/C09/invert_zero", "probe/climb_runs"},
		rule:     "one evaluation = one seeded history over 8-16 field.Element slots (all 20 Element operations; half of the runs biased to carry-free chains that maximise limbs; one run in 64 is an objective-guided search: a seeded hill-climb over histories that maximises the largest limb, the limb at one position, or the smallest limb of one operand, each candidate history executed under the same oracles, followed by a tail that feeds the largest representations found to all nine operations in every operand position), executed under the default (assembly) and the purego build; each of the nine C09 operations is compared with GF(p) arithmetic on the pre-state values, the 2^52 limb bound is checked on every written element; non-trivial = at least one of the nine operations checked; distinct = distinct value-level event-log hash"},
	"C11": {level: "fault_enumeration", quickRuns: 2400, thorRuns: 250000, chunk: 5, quickBudget: 60 * time.Second, thorBudget: 20 * time.Minute,
		builds: []string{"default", "purego"}, // the portable multiplication/squaring have their own read/write order
		required: []string{"oracle/C11diff", "oracle/C11diff/Scalar.MultiplyAdd", "oracle/C11diff/Point.MultiScalarMult", "oracle/C11diff/Point.VarTimeMultiScalarMult",
			"oracle/C11diff/Element.Select", "oracle/C11diff/Point.SetExtendedCoordinates", "oracle/C11diff/Point.Add", "oracle/C11diff/Element.Swap"},
		rule: "one evaluation = one run: a seeded history prefix (alias pressure 0.6) followed by the exhaustive enumeration of every exported method x every set partition of {receiver} U {same-typed pointer arguments} (plus multi-scalar shapes: receiver at each index, repeated points/scalars, n=1..4) on operand values drawn from the evolved world, under the default and the purego build (a fifth of the runs are field-only worlds); every call is checked by the bit-for-bit frame invariant (the receiver of a read-only method: by value), every aliased call is re-executed on private copies and compared as values; non-trivial = at least one aliased-vs-distinct comparison; distinct = distinct value-level event-log hash"},
	"C12": {level: "exploration", quickRuns: 100000, thorRuns: 5000000, chunk: 100, quickBudget: 60 * time.Second, thorBudget: 20 * time.Minute,
		builds: []string{"default"},
		required: []string{"oracle/C12", "fault/misuse/uninit", "fault/reject/sem/Point.SetExtendedCoordinates", "fault/reject/sem/Point.SetBytes",
			"probe/zero_value_receiver", "observed/setter_ok/Point.SetExtendedCoordinates"},
		rule: "one evaluation = one seeded history with every operation enabled and all fault kinds on (rejected setters, misuse panics, adversarial coordinate imports incl. zero quadruples in several limb forms, zero-value receivers); after every step every changed Point slot must be the guarded zero value (only via var/Set) or satisfy Z != 0, the curve equation and XY = ZT in big.Int; non-trivial = at least one changed point slot validated; distinct = distinct value-level event-log hash"},
	"C14": {level: "fault_enumeration", quickRuns: 60000, thorRuns: 3000000, chunk: 100, quickBudget: 45 * time.Second, thorBudget: 15 * time.Minute,
		builds: []string{"default"},
		required: []string{"observed/setter_error/Point.SetBytes", "observed/setter_error/Point.SetExtendedCoordinates", "observed/setter_error/Scalar.SetCanonicalBytes",
			"observed/setter_error/Scalar.SetUniformBytes", "observed/setter_error/Scalar.SetBytesWithClamping", "observed/setter_error/Element.SetBytes", "observed/setter_error/Element.SetWideBytes",
			"fault/reject/len/Point.SetBytes", "fault/reject/sem/Point.SetBytes", "fault/reject/sem/Scalar.SetCanonicalBytes", "fault/reject/sem/Point.SetExtendedCoordinates"},
		rule: "one evaluation = one run: seeded history prefix, then (every second run) the enumeration seven fallible setters x {every wrong-length class, nil, semantically invalid input of each sub-kind} x receiver state {zero value, used}; remaining runs inject the same faults at random points of general histories; oracle is conditional on the error actually returned: nil result, receiver and all other slots bit-identical, input unchanged / on success the receiver is returned; non-trivial = at least one fallible setter call checked; distinct = distinct value-level event-log hash"},
	"C15": {level: "fault_enumeration", quickRuns: 12000, thorRuns: 2000000, chunk: 50, quickBudget: 45 * time.Second, thorBudget: 15 * time.Minute,
		builds:   []string{"default"},
		required: []string{"fault/misuse/uninit", "fault/misuse/len", "observed/misuse_panic", "probe/zero_value_receiver"},
		rule:     "one evaluation = one run: seeded history prefix, then (every second run) the enumeration of a zero-value Point at every Point-typed input position of every operation (every non-empty subset of positions for fixed-arity operations, every index for n=1..5 multi-scalar calls, receiver aliased to the bad operand in 30%), all unequal (len(scalars), len(points)) pairs <= 4, mismatches of +-1, +2, -n/2 on lists of 16-1025 terms, and the converse (zero-value pure receiver with valid inputs must not panic); non-trivial = at least one misuse or zero-receiver call checked; distinct = distinct value-level event-log hash"},
	"C19": {level: "exploration", quickRuns: 36000, thorRuns: 1500000, chunk: 100, quickBudget: 60 * time.Second, thorBudget: 20 * time.Minute,
		builds: []string{"default"}, instrumented: true,
		required: []string{"fault/scribble/bytes", "fault/scribble/coords", "fault/scribble/ctor", "oracle/C19/probe", "oracle/C19/anchors", "oracle/C19/pkgstate"},
		rule:     "one evaluation = one seeded history in which every value handed back by the library (Bytes results, exported coordinates, constructor results) is kept in a ledger and later overwritten (raw memory and public mutators) at arbitrary points, and earlier calls are re-issued on bit-copies of their recorded operands; checked: caller slots, other returned values and every package-level variable of the library bit-identical across each mutation, returned values never overlap each other / caller slots, re-issued calls give identical values (half of them with a write-only receiver started from another state), constructors keep returning identity/base/zero; fault kinds also injected: forced garbage collections (pool eviction) and floods (one operation on 300-9000 distinct inputs, then the same inputs again); non-trivial = at least one ledger/mutation/probe check; distinct = distinct value-level event-log hash"},
}

type workerOut struct {
	Prop       string `json:"property"`
	Build      string `json:"build"`
	From, To   uint64
	Done       uint64            `json:"done"`
	Stats      *stats            `json:"stats"`
	Hashes     []string          `json:"hashes"`
	RawHashes  []string          `json:"raw_hashes"`
	Nontrivial []bool            `json:"nontrivial"`
	Violations []json.RawMessage `json:"violations"`
	Known      []string          `json:"known"`
	Samples    []json.RawMessage `json:"samples"`
}

type stats struct {
	C       map[string]int64  `json:"counters"`
	MaxLimb uint64            `json:"max_limb"`
	Cov     map[string][]byte `json:"cov,omitempty"`
}

func (s *stats) merge(o *stats) {
	if o == nil {
		return
	}
	for k, v := range o.C {
		s.C[k] += v
	}
	if o.MaxLimb > s.MaxLimb {
		s.MaxLimb = o.MaxLimb
	}
	for k, b := range o.Cov {
		if s.Cov == nil {
			s.Cov = map[string][]byte{}
		}
		if s.Cov[k] == nil {
			s.Cov[k] = make([]byte, len(b))
		}
		for i := range b {
			s.Cov[k][i] |= b[i]
		}
	}
}

// covSummary counts the bits set in each coverage set.
func covSummary(cov map[string][]byte) map[string]int {
	out := map[string]int{}
	for k, b := range cov {
		n := 0
		for _, x := range b {
			for ; x != 0; x &= x - 1 {
				n++
			}
		}
		out[k] = n
	}
	return out
}

type runResult struct {
	Idx        uint64          `json:"run_index"`
	Seed       uint64          `json:"seed"`
	Steps      int             `json:"steps"`
	ValueHash  string          `json:"value_hash"`
	Violation  *violation      `json:"violation"`
	Trace      json.RawMessage `json:"trace"`
	Transcript []string        `json:"transcript"`
}

type violation struct {
	Prop   string `json:"property"`
	Oracle string `json:"oracle"`
	Key    string `json:"key"`
	Step   int    `json:"step"`
	Detail string `json:"detail"`
}

type batch struct {
	stats      *stats
	runs       int
	hashes     map[string]bool // value hashes of non-trivial runs
	rawByIdx   map[uint64]string
	valByIdx   map[uint64]string
	violations []*runResult
	known      map[string]int
	samples    []json.RawMessage
	wall       time.Duration
	workerErr  string
}

// runBatch runs indices [0,n) of prop under bin in chunks over workers.
func runBatch(bin, prop string, seed uint64, n, chunk, workers int, deadline time.Time, extra []string, samples int, keepIdxHashes bool) *batch {
	b := &batch{stats: &stats{C: map[string]int64{}}, hashes: map[string]bool{}, known: map[string]int{}, rawByIdx: map[uint64]string{}, valByIdx: map[uint64]string{}}
	start := time.Now()
	type job struct{ from, to int }
	var queue []job
	for f := 0; f < n; f += chunk {
		t := f + chunk
		if t > n {
			t = n
		}
		queue = append(queue, job{f, t})
	}
	var mu sync.Mutex
	var wg sync.WaitGroup
	next := func() (job, bool) {
		mu.Lock()
		defer mu.Unlock()
		if len(queue) == 0 {
			return job{}, false
		}
		j := queue[0]
		queue = queue[1:]
		return j, true
	}
	knownFile := filepath.Join(verifDir, "known_findings.txt")
	for w := 0; w < workers; w++ {
		wg.Add(1)
		go func(w int) {
			defer wg.Done()
			for {
				j, ok := next()
				if !ok {
					return
				}
				if time.Now().After(deadline) {
					continue
				}
				mu.Lock()
				stop := len(b.violations) >= 40
				mu.Unlock()
				if stop {
					continue
				}
				out := filepath.Join(scratch, fmt.Sprintf("w%d_%d.json", w, j.from))
				args := []string{"hist", "-prop", prop, "-seed", strconv.FormatUint(seed, 10), "-from", strconv.Itoa(j.from), "-to", strconv.Itoa(j.to), "-out", out, "-known", knownFile}
				if j.from == 0 && samples > 0 {
					args = append(args, "-samples", strconv.Itoa(samples))
				}
				args = append(args, extra...)
				// a chunk normally takes seconds; a worker that is still running long after
				// the batch deadline means a library call does not return
				ctx, cancel := context.WithDeadline(context.Background(), deadline.Add(5*time.Minute))
				cmd := exec.CommandContext(ctx, bin, args...)
				// history runs are single-threaded simulations: one P keeps runtime-managed
				// per-P state (sync.Pool) identical between a run and its replay. The
				// environment is a swarm knob all the same: every eighth chunk runs with
				// four Ps (code paths selected by runtime.GOMAXPROCS/NumCPU, helper
				// goroutines of the library); the trace records the setting for its replay.
				procs := "1"
				if chunk > 0 && (j.from/chunk)%8 == 7 {
					procs = "4"
				}
				cmd.Env = append(os.Environ(), "GOMAXPROCS="+procs)
				ob, err := cmd.CombinedOutput()
				timedOut := ctx.Err() != nil
				cancel()
				if err != nil {
					mu.Lock()
					if b.workerErr == "" {
						if timedOut {
							b.workerErr = fmt.Sprintf("worker %v did not finish within 5 minutes after the batch deadline (a library call that does not return?)", args)
						} else {
							b.workerErr = fmt.Sprintf("worker %v failed: %v\n%s", args, err, tail(string(ob), 4000))
						}
					}
					mu.Unlock()
					continue
				}
				data, err := os.ReadFile(out)
				os.Remove(out)
				var wo workerOut
				if err == nil {
					err = json.Unmarshal(data, &wo)
				}
				if err != nil {
					mu.Lock()
					if b.workerErr == "" {
						b.workerErr = fmt.Sprintf("worker output unreadable: %v", err)
					}
					mu.Unlock()
					continue
				}
				mu.Lock()
				if int(wo.Done) < j.to && int(wo.Done) > j.from {
					// the process stopped at a violation: the rest of the chunk runs in a fresh process
					queue = append([]job{{int(wo.Done), j.to}}, queue...)
				}
				b.stats.merge(wo.Stats)
				b.runs += len(wo.Hashes)
				for i, h := range wo.Hashes {
					if i < len(wo.Nontrivial) && wo.Nontrivial[i] {
						b.hashes[h] = true
					}
					if keepIdxHashes {
						b.valByIdx[uint64(j.from+i)] = h
						if i < len(wo.RawHashes) {
							b.rawByIdx[uint64(j.from+i)] = wo.RawHashes[i]
						}
					}
				}
				for _, k := range wo.Known {
					b.known[k]++
				}
				for _, v := range wo.Violations {
					var rr runResult
					if json.Unmarshal(v, &rr) == nil {
						b.violations = append(b.violations, &rr)
					}
				}
				if len(b.samples) < samples {
					b.samples = append(b.samples, wo.Samples...)
				}
				mu.Unlock()
			}
		}(w)
	}
	wg.Wait()
	b.wall = time.Since(start)
	sort.Slice(b.violations, func(i, j int) bool { return b.violations[i].Idx < b.violations[j].Idx })
	return b
}

func tail(s string, n int) string {
	if len(s) > n {
		return s[len(s)-n:]
	}
	return s
}

func checkHist(ca *checkArgs) int {
	plan := histPlans[ca.id]
	start := time.Now()
	n, budget := plan.quickRuns, plan.quickBudget
	if ca.tier == "thorough" {
		n, budget = plan.thorRuns, plan.thorBudget
	}
	if ca.runs > 0 {
		n = ca.runs
	}
	if ca.budget > 0 {
		budget = ca.budget
	}
	fmt.Printf("check %s tier=%s seed=%d runs<=%d budget=%s\n", ca.id, ca.tier, ca.seed, n, budget)
	bins := map[string]string{}
	for _, bname := range plan.builds {
		var args []string
		if bname == "purego" {
			args = append(args, "-tags", "purego")
		}
		if plan.instrumented {
			ov := makeOverlay(false)
			tags := "verif"
			if bname == "purego" {
				tags = "verif,purego"
			}
			args = []string{"-tags", tags, "-overlay", ov}
		}
		bins[bname] = build("edsim_"+bname, args...)
		if out, err := exec.Command(bins[bname], "selfcheck").CombinedOutput(); err != nil {
			fmt.Print(string(out))
			inconclusive("simulator self-check failed on build %s", bname)
		}
	}
	fmt.Printf("built %d simulator variant(s) from /repo in %.1fs\n", len(bins), time.Since(start).Seconds())
	total := &batch{stats: &stats{C: map[string]int64{}}, hashes: map[string]bool{}, known: map[string]int{}}
	perBuild := map[string]int{}
	var problems, unreachedPerBuild []string
	deadline := time.Now().Add(budget)
	for i, bname := range plan.builds {
		// split the remaining budget evenly over the remaining builds
		remaining := time.Until(deadline)
		dl := time.Now().Add(remaining / time.Duration(len(plan.builds)-i))
		b := runBatch(bins[bname], ca.id, ca.seed, n, plan.chunk, ca.workers, dl, nil, 3, false)
		if b.workerErr != "" {
			problems = append(problems, b.workerErr)
		}
		if b.runs < 20 && b.workerErr == "" && len(b.violations) == 0 {
			problems = append(problems, fmt.Sprintf("only %d runs completed under build %s within the budget", b.runs, bname))
		}
		for _, k := range plan.required {
			if b.stats.C[k] == 0 && len(b.violations) == 0 {
				unreachedPerBuild = append(unreachedPerBuild, k+" ("+bname+" build)")
			}
		}
		// a run that meets a violation of another property stops there without an
		// alarm (attribution rule A1); if that happens to most runs, this check has
		// looked at very little and must not answer "held"
		var foreign int64
		for k, v := range b.stats.C {
			if strings.HasPrefix(k, "runs_ended_by_foreign_violation/") {
				foreign += v
			}
		}
		if b.runs >= 20 && foreign*2 > int64(b.runs) && len(b.violations) == 0 {
			problems = append(problems, fmt.Sprintf("%d of %d runs under build %s were cut short by a violation of another property (see runs_ended_early_by_violation_of_other_property in the evidence): the tree breaks that property so often that this check explored too little to answer", foreign, b.runs, bname))
		}
		perBuild[bname] = b.runs
		total.stats.merge(b.stats)
		total.runs += b.runs
		for h := range b.hashes {
			total.hashes[bname+":"+h] = true
		}
		for k, v := range b.known {
			total.known[k] += v
		}
		for _, v := range b.violations {
			total.violations = append(total.violations, v)
			vb := bname
			_ = vb
		}
		if len(total.samples) < 3 {
			total.samples = append(total.samples, b.samples...)
		}
		// remember which build a violation came from
		for _, v := range b.violations {
			violBuild[v] = bname
		}
	}
	total.wall = time.Since(start)

	// known findings
	var knownLines []string
	for k := range total.known {
		knownLines = append(knownLines, k)
	}
	sort.Strings(knownLines)
	for _, k := range knownLines {
		fmt.Println(k)
	}

	code := 0
	var replayFiles []string
	if len(total.violations) > 0 {
		// one report per distinct key, at most 3
		seen := map[string]bool{}
		for _, v := range total.violations {
			if seen[v.Violation.Key] || len(seen) >= 3 {
				continue
			}
			seen[v.Violation.Key] = true
			bname := violBuild[v]
			path := reportViolation(ca.id, bins[bname], bname, v)
			if path == "" {
				problems = append(problems, "a violation was observed but does not replay from its trace")
				continue
			}
			replayFiles = append(replayFiles, path)
			code = 1
		}
	}
	// reach requirements (per build)
	unreached := unreachedPerBuild
	writeEvidence(ca, plan, total, perBuild, replayFiles, unreached)
	if code == 0 && len(problems) > 0 {
		inconclusive("%s", strings.Join(problems, "; "))
	}
	if code == 0 && len(unreached) > 0 {
		inconclusive("workload did not reach: %v", unreached)
	}
	if code == 0 {
		if nm := keysWithPrefix(total.stats.C, "new_method_driven_generically/"); len(nm) > 0 {
			fmt.Printf("NOTE: exported methods outside the operation table were driven through reflection under the generic oracles only (no reference model): %v\n", nm)
		}
		if nf := undrivenAPI(); len(nf) > 0 {
			fmt.Printf("NOTE: exported package-level functions and types that the simulator does not know were NOT exercised: %v\n", nf)
		}
		if nm := keysWithPrefix(total.stats.C, "unexercised_new_method/"); len(nm) > 0 {
			fmt.Printf("NOTE: exported methods that are not in the operation table were NOT exercised: %v\n", nm)
		}
		fmt.Printf("OK property=%s held on %d runs (%d steps) in %.1fs\n", ca.id, total.runs, total.stats.C["steps"], total.wall.Seconds())
	}
	return code
}

var violBuild = map[*runResult]string{}

// reportViolation minimises the trace, writes the replay file, replays it once
// more from the file, and prints the VIOLATION line.
func reportViolation(id, bin, bname string, v *runResult) string {
	var tr map[string]interface{}
	if err := json.Unmarshal(v.Trace, &tr); err != nil {
		inconclusive("violation without a usable trace: %v", err)
	}
	tr["build"] = bname
	orig := tr
	min := minimise(bin, tr, v.Violation)
	dir := filepath.Join(outDir, "replays", id)
	os.MkdirAll(dir, 0o755)
	name := fmt.Sprintf("%s_seed%d_run%d.json", sanitize(v.Violation.Oracle), uint64(tr["seed"].(float64)), v.Idx)
	path := filepath.Join(dir, name)
	write := func(t map[string]interface{}) {
		b, _ := json.MarshalIndent(t, "", " ")
		if err := os.WriteFile(path, b, 0o644); err != nil {
			inconclusive("cannot write replay file: %v", err)
		}
	}
	write(min)
	if rv := replayFile(bin, path); rv != nil && rv.Prop == v.Violation.Prop && rv.Oracle == v.Violation.Oracle {
		vb, _ := json.Marshal(rv)
		var vm map[string]interface{}
		json.Unmarshal(vb, &vm)
		min["violation"] = vm
		write(min)
	}
	if rv := replayFile(bin, path); rv == nil || rv.Prop != v.Violation.Prop || rv.Oracle != v.Violation.Oracle {
		// minimised trace does not reproduce from its file: fall back to the original
		write(orig)
		if rv := replayFile(bin, path); rv == nil || rv.Prop != v.Violation.Prop {
			fmt.Printf("a violation of %s was observed but does not replay from its trace (kept at %s): %s\n", id, path, v.Violation.Detail)
			return ""
		}
	}
	var mt struct {
		Calls []json.RawMessage `json:"calls"`
	}
	mb, _ := os.ReadFile(path)
	json.Unmarshal(mb, &mt)
	fmt.Printf("violation detail: %s\n", v.Violation.Detail)
	fmt.Printf("minimised trace: %d steps (from %d), oracle=%s key=%s\n", len(mt.Calls), v.Steps, v.Violation.Oracle, v.Violation.Key)
	fmt.Printf("VIOLATION property=%s replay=%s\n", id, path)
	return path
}

func sanitize(s string) string {
	r := strings.NewReplacer("/", "_", " ", "_", "=", "_", "<", "", ">", "")
	return r.Replace(s)
}

// replayFile replays a trace in a fresh process. A library that consults
// runtime-managed caches (sync.Pool) is not fully under the simulator's
// control, so a replay that shows nothing is retried a few times.
func replayFile(bin, path string) *violation {
	for attempt := 0; attempt < 3; attempt++ {
		if v := replayOnce(bin, path); v != nil {
			return v
		}
	}
	return nil
}

// traceProcs returns the GOMAXPROCS setting recorded in a trace file ("1" if none).
func traceProcs(path string) string {
	b, err := os.ReadFile(path)
	if err != nil {
		return "1"
	}
	var t struct {
		Procs int `json:"gomaxprocs"`
	}
	if json.Unmarshal(b, &t) != nil || t.Procs < 1 || t.Procs > 64 {
		return "1"
	}
	return strconv.Itoa(t.Procs)
}

func replayOnce(bin, path string) *violation {
	ctx, cancel := context.WithTimeout(context.Background(), 2*time.Minute)
	defer cancel()
	cmd := exec.CommandContext(ctx, bin, "replay", "-trace", path, "-known", filepath.Join(verifDir, "known_findings.txt"))
	cmd.Env = append(os.Environ(), "GOMAXPROCS="+traceProcs(path))
	out, _ := cmd.Output()
	var rr runResult
	lines := strings.Split(strings.TrimSpace(string(out)), "\n")
	if len(lines) == 0 {
		return nil
	}
	if json.Unmarshal([]byte(lines[len(lines)-1]), &rr) != nil {
		return nil
	}
	return rr.Violation
}

// ddmin reduces list while test keeps returning true.
func ddmin(list []interface{}, test func([]interface{}) bool, allowEmpty bool) []interface{} {
	if allowEmpty && len(list) > 0 && test([]interface{}{}) {
		return []interface{}{}
	}
	n := 2
	for len(list) >= 2 {
		chunk := (len(list) + n - 1) / n
		reduced := false
		for i := 0; i < len(list); i += chunk {
			j := i + chunk
			if j > len(list) {
				j = len(list)
			}
			cand := append(append([]interface{}{}, list[:i]...), list[j:]...)
			if (len(cand) > 0 || allowEmpty) && test(cand) {
				list = cand
				if n > 2 {
					n--
				}
				reduced = true
				break
			}
		}
		if !reduced {
			if chunk == 1 {
				break
			}
			n *= 2
			if n > len(list) {
				n = len(list)
			}
		}
	}
	return list
}

// simplifyOperands tries, call by call, to replace operands by simpler ones
// (annotations dropped, padding removed, literal bytes zeroed, integers to 0/1,
// slots to lower-numbered slots), keeping a replacement only if the same
// violation persists.
func simplifyOperands(calls []interface{}, test func([]interface{}) bool) []interface{} {
	clone := func(m map[string]interface{}) map[string]interface{} {
		c := map[string]interface{}{}
		for k, v := range m {
			if l, ok := v.([]interface{}); ok {
				c[k] = append([]interface{}{}, l...)
			} else {
				c[k] = v
			}
		}
		return c
	}
	try := func(i int, mod func(m map[string]interface{}) bool) {
		orig, ok := calls[i].(map[string]interface{})
		if !ok {
			return
		}
		c := clone(orig)
		if !mod(c) {
			return
		}
		cand := append([]interface{}{}, calls...)
		cand[i] = c
		if test(cand) {
			calls = cand
		}
	}
	for i := range calls {
		try(i, func(m map[string]interface{}) bool {
			ch := false
			for _, k := range []string{"fault", "bpad", "boff"} {
				if _, ok := m[k]; ok {
					delete(m, k)
					ch = true
				}
			}
			return ch
		})
		try(i, func(m map[string]interface{}) bool {
			b, ok := m["b"].(string)
			if !ok || len(b) == 0 || strings.Trim(b, "0") == "" {
				return false
			}
			m["b"] = strings.Repeat("0", len(b))
			return true
		})
		for _, k := range []string{"u", "c"} {
			k := k
			try(i, func(m map[string]interface{}) bool {
				if v, ok := m[k].(float64); ok && v > 1 {
					m[k] = float64(1)
					return true
				}
				return false
			})
		}
		for _, k := range []string{"p", "s", "e"} {
			k := k
			orig, _ := calls[i].(map[string]interface{})
			l, _ := orig[k].([]interface{})
			for j := range l {
				j := j
				cur, _ := l[j].(float64)
				for lower := 0; lower < int(cur); lower++ {
					lower := lower
					before := calls[i]
					try(i, func(m map[string]interface{}) bool {
						ll, _ := m[k].([]interface{})
						if j >= len(ll) {
							return false
						}
						ll[j] = float64(lower)
						return true
					})
					if !reflect.DeepEqual(before, calls[i]) {
						break
					}
				}
			}
		}
	}
	return calls
}

// minimise shrinks a failing trace, every candidate in a fresh process: first
// the prelude (runs executed earlier in the same process; dropped entirely if
// the violation reproduces from a cold process), then the call list.
func minimise(bin string, tr map[string]interface{}, want *violation) map[string]interface{} {
	calls, _ := tr["calls"].([]interface{})
	prelude, _ := tr["prelude"].([]interface{})
	deadline := time.Now().Add(90 * time.Second)
	tries := 0
	tmp := filepath.Join(scratch, "cand.json")
	run := func(pre, cs []interface{}) bool {
		if tries >= 500 || time.Now().After(deadline) {
			return false
		}
		tries++
		c := map[string]interface{}{}
		for k, v := range tr {
			c[k] = v
		}
		c["calls"] = cs
		if len(pre) > 0 {
			c["prelude"] = pre
		} else {
			delete(c, "prelude")
		}
		b, _ := json.Marshal(c)
		os.WriteFile(tmp, b, 0o644)
		v := replayFile(bin, tmp)
		return v != nil && v.Prop == want.Prop && v.Oracle == want.Oracle
	}
	// cut everything after the violating step
	if want.Step+1 < len(calls) {
		calls = calls[:want.Step+1]
	}
	if len(prelude) > 0 {
		prelude = ddmin(prelude, func(p []interface{}) bool { return run(p, calls) }, true)
	}
	calls = ddmin(calls, func(cs []interface{}) bool { return run(prelude, cs) }, false)
	calls = simplifyOperands(calls, func(cs []interface{}) bool { return run(prelude, cs) })
	out := map[string]interface{}{}
	for k, v := range tr {
		out[k] = v
	}
	out["calls"] = calls
	delete(out, "prelude")
	note := fmt.Sprintf("minimised by ddmin in %d candidate replays (each in a fresh process)", tries)
	if len(prelude) > 0 {
		out["prelude"] = prelude
		note += fmt.Sprintf("; needs %d earlier run(s) in the same process (package state left behind by earlier calls)", len(prelude))
	}
	out["note"] = note
	vb, _ := json.Marshal(want)
	var vm map[string]interface{}
	json.Unmarshal(vb, &vm)
	out["violation"] = vm
	return out
}

func writeEvidence(ca *checkArgs, plan *histPlan, b *batch, perBuild map[string]int, replayFiles, unreached []string) {
	faults := map[string]int64{}
	opsC := map[string]int64{}
	probes := map[string]int64{}
	oracles := map[string]int64{}
	observed := map[string]int64{}
	for k, v := range b.stats.C {
		switch {
		case strings.HasPrefix(k, "fault/"):
			faults[k[len("fault/"):]] = v
		case strings.HasPrefix(k, "op/"):
			opsC[k[len("op/"):]] = v
		case strings.HasPrefix(k, "probe/"):
			probes[k[len("probe/"):]] = v
		case strings.HasPrefix(k, "oracle/"):
			oracles[k[len("oracle/"):]] = v
		case strings.HasPrefix(k, "observed/"):
			observed[k[len("observed/"):]] = v
		}
	}
	var samples []interface{}
	for _, s := range b.samples {
		var rr struct {
			Idx   uint64          `json:"run_index"`
			Seed  uint64          `json:"seed"`
			Trace json.RawMessage `json:"trace"`
		}
		if json.Unmarshal(s, &rr) == nil && rr.Trace != nil {
			var t map[string]interface{}
			json.Unmarshal(rr.Trace, &t)
			if cs, ok := t["calls"].([]interface{}); ok && len(cs) > 25 {
				t["calls"] = cs[:25]
				t["note"] = fmt.Sprintf("first 25 of %d calls", len(cs))
			}
			samples = append(samples, map[string]interface{}{"run_index": rr.Idx, "run_seed": rr.Seed, "trace": t})
		}
		if len(samples) >= 2 {
			break
		}
	}
	if len(samples) == 0 {
		samples = append(samples, "no sample kept (no run completed)")
	}
	wall := b.wall.Seconds()
	cov := map[string]interface{}{
		"evaluations":                         b.runs,
		"distinct_nontrivial":                 len(b.hashes),
		"rule":                                plan.rule,
		"samples":                             samples,
		"steps_executed":                      b.stats.C["steps"],
		"runs_per_hour":                       int(float64(b.runs) / wall * 3600),
		"runs_per_build":                      perBuild,
		"simulated_time":                      "the library has no clock; coverage is reported in logical steps (steps_executed)",
		"fault_kinds_fired":                   faults,
		"operation_counts":                    opsC,
		"oracle_evaluations":                  oracles,
		"observed":                            observed,
		"reach_probes":                        probes,
		"max_limb_observed":                   fmt.Sprintf("0x%x", b.stats.MaxLimb),
		"recoding_pairs_covered":              covSummary(b.stats.Cov),
		"distinct_call_shapes_or_fault_sites": sitesSummary(b.stats.C),
		"unreached_required":                  unreached,
		"runs_ended_early_by_violation_of_other_property": countPrefix(b.stats.C, "runs_ended_by_foreign_violation/"),
		"known_findings_hit":                              len(b.known),
		"exported_methods_driven_generically":             keysWithPrefix(b.stats.C, "new_method_driven_generically/"),
		"exported_methods_not_in_operation_table":         keysWithPrefix(b.stats.C, "unexercised_new_method/"),
		"exported_functions_and_types_not_driven":         undrivenAPI(),
		"replay_files": replayFiles,
		"components": map[string]interface{}{
			"real":    []string{"the whole library (filippo.io/edwards25519 and field) built from /repo's working tree", "sync.Once"},
			"stub":    []string{},
			"harness": []string{"slot world, workload/fault generator, big.Int reference models (alpha, ref)"},
		},
		"exhaustive": false,
	}
	ev := map[string]interface{}{
		"property_id": ca.id,
		"tier":        ca.tier,
		"seed":        ca.seed,
		"level":       plan.level,
		"coverage":    cov,
		"assumptions": append(append([]string{}, commonAssumptions...), plan.assumptions...),
		"wall_s":      wall,
		"violations":  len(b.violations),
	}
	writeEvidenceFile(ca.id, ev)
}

// sitesSummary reports the enumerated call shapes / fault sites that were
// actually executed: count per family and the full list.
func sitesSummary(m map[string]int64) map[string]interface{} {
	fam := map[string][]string{}
	for k := range m {
		if strings.HasPrefix(k, "site/") {
			rest := k[len("site/"):]
			f := rest[:strings.Index(rest, "/")]
			fam[f] = append(fam[f], rest[len(f)+1:])
		}
	}
	out := map[string]interface{}{}
	for f, l := range fam {
		sort.Strings(l)
		out[f+"_count"] = len(l)
		if len(l) > 80 {
			l = append(l[:80:80], fmt.Sprintf("... and %d more", len(l)-80))
		}
		out[f] = l
	}
	return out
}

func keysWithPrefix(m map[string]int64, p string) []string {
	out := []string{}
	for k := range m {
		if strings.HasPrefix(k, p) {
			out = append(out, k[len(p):])
		}
	}
	sort.Strings(out)
	return out
}

func countPrefix(m map[string]int64, p string) map[string]int64 {
	out := map[string]int64{}
	for k, v := range m {
		if strings.HasPrefix(k, p) {
			out[k[len(p):]] = v
		}
	}
	return out
}

func writeEvidenceFile(id string, ev map[string]interface{}) {
	os.MkdirAll(filepath.Join(outDir, "evidence"), 0o755)
	bts, _ := json.MarshalIndent(ev, "", " ")
	if err := os.WriteFile(filepath.Join(outDir, "evidence", id+".json"), bts, 0o644); err != nil {
		inconclusive("cannot write evidence: %v", err)
	}
}

// ---- replay ----

func cmdReplay(args []string) {
	if len(args) < 1 {
		inconclusive("replay needs a file")
	}
	path := args[0]
	data, err := os.ReadFile(path)
	if err != nil {
		inconclusive("%v", err)
	}
	var t struct {
		Kind  string `json:"kind"`
		Prop  string `json:"property"`
		Build string `json:"build"`
	}
	if err := json.Unmarshal(data, &t); err != nil {
		inconclusive("bad replay file: %v", err)
	}
	mkScratch()
	defer cleanup()
	var code int
	switch t.Kind {
	case "sched":
		code = replayC18(path)
	case "c20":
		code = replayC20(path)
	default:
		var bargs []string
		plan := histPlans[t.Prop]
		if plan != nil && plan.instrumented {
			tags := "verif"
			if t.Build == "purego" {
				tags += ",purego"
			}
			bargs = []string{"-tags", tags, "-overlay", makeOverlay(false)}
		} else if t.Build == "purego" {
			bargs = []string{"-tags", "purego"}
		}
		bin := build("edsim_replay", bargs...)
		cmd := exec.Command(bin, "replay", "-trace", path, "-known", filepath.Join(verifDir, "known_findings.txt"), "-transcript")
		cmd.Env = append(os.Environ(), "GOMAXPROCS="+traceProcs(path))
		out, rerr := cmd.Output()
		fmt.Print(string(out))
		if ee, ok := rerr.(*exec.ExitError); rerr != nil && (!ok || ee.ExitCode() != 1) {
			inconclusive("the simulator could not replay %s on this tree (see above)", path)
		}
		if v := replayFile(bin, path); v != nil {
			fmt.Printf("reproduced: %s\n", v.Detail)
			fmt.Printf("VIOLATION property=%s replay=%s\n", v.Prop, path)
			code = 1
		} else {
			fmt.Println("no violation on this tree")
		}
	}
	cleanup()
	os.Exit(code)
}
