module verifsim

go 1.23

require filippo.io/edwards25519 v0.0.0

replace filippo.io/edwards25519 => /repo
