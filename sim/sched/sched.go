//go:build verif

// Package sched is the task scheduler of the simulator: tasks are real
// goroutines, but which one runs is decided here, at the yield points that the
// instrumenter spliced into the library. Exactly one task holds the turn;
// parked tasks spin on a turn variable that is only touched inside
// //go:norace //go:noinline functions, so the race detector sees exactly the
// synchronisation the library performs and nothing the simulator adds.
//
// Every piece of scheduler state is read and written only inside norace
// functions of this file.
package sched

import (
	"runtime"
	"sync"
	"time"
	"unsafe"

	"filippo.io/edwards25519/field"
)

const (
	Main     = -1
	maxTasks = 136
	maxDec   = 1 << 20
	// StepCap: a no-progress bound, not a length bound: the number of statements the
	// tasks may execute without ANY task completing an operation. The most
	// expensive single operation (a 20-term multi-scalar call under the purego
	// build, where the generic multiplication is instrumented too) needs a few
	// million.
	StepCap   = 60_000_000
	spinLimit = 50_000
	// fairnessLimit: statements a task may execute without completing an operation
	// before another runnable task is given the turn
	fairnessLimit = 4_000_000
)

// Decision is one scheduling choice: after task Task's own yield number Ord
// (or when it blocked / finished: Kind != 0) the turn went to Next.
type Decision struct {
	Task int    `json:"t"`
	Ord  uint64 `json:"o"`
	Next int    `json:"n"`
	Kind int    `json:"k,omitempty"` // 0 pre-emption at a yield, 1 blocked in a gate, 2 finished, 3 forced (spin)
	Site int    `json:"s"`
}

// Policy decides pre-emptions in generation mode.
type Policy struct {
	PHot, PCold float64
	// PSync: probability of a switch at a statement that performs a sync or
	// sync/atomic operation (and after an atomic operation inside a statement).
	// With PHot = PCold = 0 this gives coarse schedules whose switches sit
	// exactly at the synchronisation operations.
	PSync float64
	PCT   []uint64 // if non-empty: pre-empt exactly at these global yield ordinals, nothing else
}

type gate struct {
	ptr     unsafe.Pointer
	state   int // once: 0 idle 1 running 2 done ; mutex: 0 free 1 write-held
	owner   int
	readers int
	// writersWaiting models Go's RWMutex writer preference: while a Lock is
	// pending, new RLock calls queue behind it (so a recursive RLock deadlocks).
	writersWaiting int
}

type taskState struct {
	done      bool
	blockedOn int // gate index + 1
	yields    uint64
	lastSite  int
	same      int
	inClosure int
	decCursor int
	// busy-wait detection: a small set of recently seen sites and the number of
	// consecutive yields that stayed inside that set
	recent   [16]int
	nRecent  int
	sinceNew int
	sinceOp  int // statements since this task last completed an operation
}

var st struct {
	turn         int32
	cur          int
	active       bool
	nTasks       int
	tasks        [maxTasks]taskState
	nSites       int
	counts       []uint32 // [task*nSites + site]
	warm         []uint32
	countWarm    bool
	total        uint64
	lastProgress uint64 // value of total when an operation last completed
	gates        []gate
	rng          [4]uint64
	policy       Policy
	pctNext      int
	replay       bool
	decs         [][]Decision // replay: per task, in order
	log          []Decision
	logOverflow  bool
	deadlock     bool
	stepCap      bool
	hot          []bool
	syncSite     []bool
	// reach probes
	switches, gateBlocks, preemptInClosure, gateContention, gateCalls, gateCallsOpen uint64
	switchHash                                                                       uint64
}

//go:norace
//go:noinline
func getTurn() int32 { return st.turn }

//go:norace
//go:noinline
func setTurn(v int32) { st.turn = v }

//go:norace
func rnd() uint64 {
	s := &st.rng
	r := ((s[1] * 5) << 7) | ((s[1] * 5) >> 57)
	r *= 9
	t := s[1] << 17
	s[2] ^= s[0]
	s[3] ^= s[1]
	s[1] ^= s[2]
	s[0] ^= s[3]
	s[2] ^= t
	s[3] = (s[3] << 45) | (s[3] >> 19)
	return r
}

//go:norace
func rndFloat() float64 { return float64(rnd()>>11) / (1 << 53) }

//go:norace
func rndIntn(n int) int { return int((rnd() >> 11) % uint64(n)) }

//go:norace
func seedRng(seed uint64) {
	x := seed
	for i := range st.rng {
		x += 0x9e3779b97f4a7c15
		z := x
		z = (z ^ (z >> 30)) * 0xbf58476d1ce4e5b9
		z = (z ^ (z >> 27)) * 0x94d049bb133111eb
		st.rng[i] = z ^ (z >> 31)
	}
}

//go:norace
func park(me int) {
	for getTurn() != int32(me) {
		runtime.Gosched()
	}
}

//go:norace
func runnable(t int) bool {
	ts := &st.tasks[t]
	return !ts.done && ts.blockedOn == 0
}

//go:norace
func logDecision(d Decision) {
	if len(st.log) < maxDec {
		st.log = append(st.log, d)
	} else {
		st.logOverflow = true
	}
	st.switchHash = (st.switchHash ^ uint64(d.Site+1)*0x9e3779b97f4a7c15 ^ uint64(d.Task)<<48 ^ uint64(d.Next+2)<<56) * 0xbf58476d1ce4e5b9
}

// pickOther chooses a runnable task other than me (-2 if none).
//
//go:norace
func pickOther(me int) int {
	n := 0
	var cand [maxTasks]int
	for t := 0; t < st.nTasks; t++ {
		if t != me && runnable(t) {
			cand[n] = t
			n++
		}
	}
	if n == 0 {
		return -2
	}
	if st.replay {
		return cand[0]
	}
	return cand[rndIntn(n)]
}

// replayDecision returns the recorded decision of task t at its current
// ordinal with the given kind class (yield vs block/finish), if any.
//
//go:norace
func replayDecision(t int, blocking bool) (Decision, bool) {
	ts := &st.tasks[t]
	ds := st.decs[t]
	for ts.decCursor < len(ds) && ds[ts.decCursor].Ord < ts.yields {
		ts.decCursor++
	}
	if ts.decCursor < len(ds) && ds[ts.decCursor].Ord == ts.yields {
		d := ds[ts.decCursor]
		if (d.Kind == 1 || d.Kind == 2) == blocking {
			ts.decCursor++
			return d, true
		}
	}
	return Decision{}, false
}

// handOff gives the turn to next and parks the caller until it is its turn
// again (unless the caller is finished).
//
//go:norace
func handOff(me, next int, wait bool) {
	st.cur = next
	setTurn(int32(next))
	if wait {
		park(me)
	}
}

// yieldHook runs at every statement of the instrumented library.
//
//go:norace
func yieldHook(site int) {
	if !st.active {
		if st.countWarm {
			st.warm[site]++
		}
		return
	}
	t := st.cur
	ts := &st.tasks[t]
	st.counts[t*st.nSites+site]++
	st.total++
	ts.yields++
	if st.total-st.lastProgress > StepCapFor(st.nTasks) {
		st.stepCap = true
		st.active = false
		handOff(t, Main, true)
		return
	}
	// a task that keeps executing the same few statements (a poll loop may span
	// several sites) is busy-waiting
	inSet := false
	for k := 0; k < ts.nRecent; k++ {
		if ts.recent[k] == site {
			inSet = true
			break
		}
	}
	if inSet {
		ts.sinceNew++
	} else {
		if ts.nRecent < len(ts.recent) {
			ts.recent[ts.nRecent] = site
			ts.nRecent++
		} else {
			ts.recent[0] = site
			ts.nRecent = 1
		}
		ts.sinceNew = 0
	}
	ts.same = ts.sinceNew
	next := -2
	kind := 0
	if st.replay {
		if d, ok := replayDecision(t, false); ok {
			if d.Next >= 0 && d.Next < st.nTasks && d.Next != t && runnable(d.Next) {
				next, kind = d.Next, d.Kind
			}
		}
	} else {
		want := false
		if len(st.policy.PCT) > 0 {
			if st.pctNext < len(st.policy.PCT) && st.total >= st.policy.PCT[st.pctNext] {
				st.pctNext++
				want = true
			}
		} else {
			p := st.policy.PCold
			if st.hot[site] {
				p = st.policy.PHot
			}
			if st.syncSite[site] && st.policy.PSync > p {
				p = st.policy.PSync
			}
			want = p > 0 && rndFloat() < p
		}
		if want {
			next = pickOther(t)
		}
	}
	// fairness: a task that has executed very many statements without completing
	// an operation, while another task could run, is pre-empted once (a poll loop
	// with a large body escapes the site-set detection above)
	ts.sinceOp++
	if next < 0 && ts.sinceOp > fairnessLimit {
		ts.sinceOp = 0
		if n := pickOther(t); n >= 0 {
			next, kind = n, 3
		}
	}
	if next < 0 && ts.same > spinLimit {
		// the task keeps executing the same few statements: a busy-wait. Let someone else run.
		ts.sinceNew = 0
		ts.nRecent = 0
		ts.same = 0
		if n := pickOther(t); n >= 0 {
			next, kind = n, 3
		}
	}
	if next < 0 {
		return
	}
	st.switches++
	if ts.inClosure > 0 {
		st.preemptInClosure++
	}
	logDecision(Decision{Task: t, Ord: ts.yields, Next: next, Kind: kind, Site: site})
	handOff(t, next, true)
}

// blockOrFinish is called by a task that cannot continue (blocked in a gate)
// or has finished; it passes the turn on, or reports deadlock / completion.
//
//go:norace
func blockOrFinish(me int, finished bool) {
	ts := &st.tasks[me]
	next := -2
	if st.replay {
		if d, ok := replayDecision(me, true); ok && d.Next >= 0 && d.Next < st.nTasks && d.Next != me && runnable(d.Next) {
			next = d.Next
		}
	}
	if next < 0 {
		next = pickOther(me)
	}
	kind := 1
	if finished {
		kind = 2
	}
	if next < 0 {
		// nobody can run
		all := true
		for t := 0; t < st.nTasks; t++ {
			if !st.tasks[t].done {
				all = false
			}
		}
		if !all {
			st.deadlock = true
		}
		st.active = false
		logDecision(Decision{Task: me, Ord: ts.yields, Next: Main, Kind: kind, Site: -1})
		handOff(me, Main, !finished)
		return
	}
	logDecision(Decision{Task: me, Ord: ts.yields, Next: next, Kind: kind, Site: -1})
	handOff(me, next, !finished)
}

//go:norace
func gateFor(p unsafe.Pointer) int {
	for i := range st.gates {
		if st.gates[i].ptr == p {
			return i
		}
	}
	st.gates = append(st.gates, gate{ptr: p})
	return len(st.gates) - 1
}

//go:norace
func wake(g int) {
	for t := 0; t < st.nTasks; t++ {
		if st.tasks[t].blockedOn == g+1 {
			st.tasks[t].blockedOn = 0
		}
	}
}

// onceEnter decides what the caller of Once.Do may do: 0 = call the real Do
// (it cannot block), 1 = this task runs the closure, 2 = was blocked, retry.
//
//go:norace
func onceEnter(p unsafe.Pointer) (int, int) {
	st.gateCalls++
	g := gateFor(p)
	t := st.cur
	if st.gates[g].state != 2 {
		st.gateCallsOpen++
	}
	switch st.gates[g].state {
	case 2:
		return 0, g
	case 0:
		st.gates[g].state = 1
		st.gates[g].owner = t
		return 1, g
	default:
		st.gateBlocks++
		st.gateContention++
		st.tasks[t].blockedOn = g + 1
		blockOrFinish(t, false)
		return 2, g
	}
}

//go:norace
func onceClosure(g int, enter bool) {
	t := st.cur
	if enter {
		st.tasks[t].inClosure++
	} else {
		st.tasks[t].inClosure--
	}
}

//go:norace
func onceExit(g int) {
	st.gates[g].state = 2
	wake(g)
}

//go:norace
func schedActive() bool { return st.active }

// onceDo replaces (*sync.Once).Do in the instrumented library. The real Do is
// always executed (so the race detector gets its genuine happens-before
// edges), but only when it is certain not to block.
func onceDo(o *sync.Once, f func()) {
	if !schedActive() {
		o.Do(f)
		return
	}
	for {
		what, g := onceEnter(unsafe.Pointer(o))
		switch what {
		case 0:
			o.Do(f)
			return
		case 1:
			// the real Once is done even if f panics: release the gate in any case
			func() {
				defer onceExit(g)
				o.Do(func() {
					onceClosure(g, true)
					defer onceClosure(g, false)
					f()
				})
			}()
			return
		}
	}
}

// mutexHook is called before the real Lock/RLock and after the real
// Unlock/RUnlock of the instrumented library.
//
//go:norace
func mutexHook(p unsafe.Pointer, kind int) {
	if !st.active {
		return
	}
	st.gateCalls++
	if kind == 0 || kind == 2 {
		st.gateCallsOpen++
	}
	for {
		g := gateFor(p)
		t := st.cur
		gt := &st.gates[g]
		switch kind {
		case 0: // Lock
			if gt.state == 0 && gt.readers == 0 {
				gt.state, gt.owner = 1, t
				return
			}
			gt.writersWaiting++
			st.gateBlocks++
			st.tasks[t].blockedOn = g + 1
			blockOrFinish(t, false)
			st.gates[g].writersWaiting--
			continue
		case 2: // RLock
			if gt.state == 0 && gt.writersWaiting == 0 {
				gt.readers++
				return
			}
		case 1: // Unlock
			gt.state = 0
			wake(g)
			return
		case 3: // RUnlock
			gt.readers--
			if gt.readers == 0 {
				wake(g)
			}
			return
		}
		st.gateBlocks++
		st.tasks[t].blockedOn = g + 1
		blockOrFinish(t, false)
	}
}

// tryHook decides TryLock / TryRLock in the gate model (never blocks).
//
//go:norace
func tryHook(p unsafe.Pointer, kind int) int {
	if !st.active {
		return 2
	}
	st.gateCalls++
	st.gateCallsOpen++
	gt := &st.gates[gateFor(p)]
	switch kind {
	case 0:
		if gt.state == 0 && gt.readers == 0 {
			gt.state, gt.owner = 1, st.cur
			return 1
		}
	case 2:
		if gt.state == 0 && gt.writersWaiting == 0 {
			gt.readers++
			return 1
		}
	}
	st.gateContention++
	return 0
}

// Result of the concurrent phase.
type Result struct {
	Deadlock, StepCap, Watchdog, LogOverflow bool
	Yields                                   uint64
	Switches                                 uint64
	GateBlocks                               uint64
	GateCalls                                uint64
	GateCallsOpen                            uint64
	PreemptInClosure                         uint64
	SwitchHash                               uint64
	Log                                      []Decision
	Counts                                   [][]uint32 // per task, per site
	TaskYields                               []uint64
	BlockedTasks                             []int
}

//go:norace
func setup(n int, seed uint64, pol Policy, replay [][]Decision) {
	st.nTasks = n
	st.nSites = len(field.VerifSites)
	st.counts = make([]uint32, n*st.nSites)
	st.hot = make([]bool, st.nSites)
	st.syncSite = make([]bool, st.nSites)
	for i, s := range field.VerifSites {
		st.hot[i] = s.Hot
		st.syncSite[i] = s.Sync
	}
	st.total = 0
	st.lastProgress = 0
	st.gates = st.gates[:0]
	st.log = make([]Decision, 0, 4096)
	st.policy = pol
	st.pctNext = 0
	st.replay = replay != nil
	st.decs = replay
	for i := range st.tasks {
		st.tasks[i] = taskState{lastSite: -1}
	}
	seedRng(seed)
	st.turn = Main
	st.cur = Main
	st.deadlock, st.stepCap = false, false
	st.switches, st.gateBlocks, st.preemptInClosure, st.gateContention, st.gateCalls, st.gateCallsOpen = 0, 0, 0, 0, 0, 0
}

// StepCapFor is the no-progress bound for n tasks: with many tasks interleaved
// evenly, none completes an operation before all of them nearly have, so the
// bound grows with the number of tasks (StepCap per eight tasks).
//
//go:norace
func StepCapFor(n int) uint64 {
	k := (n + 7) / 8
	if k < 1 {
		k = 1
	}
	return uint64(k) * StepCap
}

// OpBoundary is called by a task body when it has completed an operation.
//
//go:norace
func OpBoundary() {
	if st.active {
		st.lastProgress = st.total
		if st.cur >= 0 && st.cur < st.nTasks {
			st.tasks[st.cur].sinceOp = 0
		}
	}
}

//go:norace
func start(first int) {
	st.active = true
	st.cur = first
	setTurn(int32(first))
}

//go:norace
func firstTask() int {
	if st.replay {
		return 0
	}
	return rndIntn(st.nTasks)
}

//go:norace
func taskDone(id int) {
	st.tasks[id].done = true
	blockOrFinish(id, true)
}

//go:norace
func collect(res *Result) {
	res.Deadlock, res.StepCap, res.LogOverflow = st.deadlock, st.stepCap, st.logOverflow
	res.Yields, res.Switches, res.GateBlocks, res.PreemptInClosure, res.SwitchHash = st.total, st.switches, st.gateBlocks, st.preemptInClosure, st.switchHash
	res.GateCalls = st.gateCalls
	res.GateCallsOpen = st.gateCallsOpen
	res.Log = st.log
	for t := 0; t < st.nTasks; t++ {
		res.Counts = append(res.Counts, st.counts[t*st.nSites:(t+1)*st.nSites])
		res.TaskYields = append(res.TaskYields, st.tasks[t].yields)
		if !st.tasks[t].done {
			res.BlockedTasks = append(res.BlockedTasks, t)
		}
	}
}

//go:norace
func waitMain(deadline time.Time) bool {
	n := 0
	for getTurn() != Main {
		runtime.Gosched()
		n++
		if n&0xffff == 0 && time.Now().After(deadline) {
			return false
		}
	}
	return true
}

// FirstOverride lets a replay name the task that starts (recorded in the trace).
var FirstOverride = -1

// Run executes the task bodies concurrently under the scheduler. replay == nil
// means generation mode (choices from seed and pol).
func Run(bodies []func(), seed uint64, pol Policy, replay [][]Decision, watchdog time.Duration) (*Result, int) {
	n := len(bodies)
	if n > maxTasks {
		panic("too many tasks")
	}
	setup(n, seed, pol, replay)
	field.VerifSimYield = yieldHook
	field.VerifSimOnceDo = onceDo
	field.VerifSimMutex = mutexHook
	field.VerifSimTry = tryHook
	var wg sync.WaitGroup
	for i := range bodies {
		wg.Add(1)
		go func(id int) {
			defer wg.Done()
			park(id)
			bodies[id]()
			taskDone(id)
		}(i)
	}
	first := firstTask()
	if FirstOverride >= 0 && FirstOverride < n {
		first = FirstOverride
	}
	start(first)
	ok := waitMain(time.Now().Add(watchdog))
	res := &Result{}
	if !ok {
		res.Watchdog = true
		collect(res)
		return res, first
	}
	collect(res)
	if !res.Deadlock && !res.StepCap {
		wg.Wait() // every task has returned: a real happens-before edge for what follows
		field.VerifSimYield = nil
		field.VerifSimOnceDo = nil
		field.VerifSimMutex = nil
		field.VerifSimTry = nil
	}
	// (after a deadlock or step cap tasks are still parked inside the library: the
	// hooks stay in place, the process is about to report and exit)
	return res, first
}

// CountSequential runs f in the calling goroutine while counting the yield
// sites it executes (no scheduling).
func CountSequential(f func()) []uint32 {
	beginWarm()
	field.VerifSimYield = yieldHook
	f()
	field.VerifSimYield = nil
	return endWarm()
}

//go:norace
func beginWarm() {
	st.active = false
	st.warm = make([]uint32, len(field.VerifSites))
	st.countWarm = true
}

//go:norace
func endWarm() []uint32 {
	st.countWarm = false
	return st.warm
}
