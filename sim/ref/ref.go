// Package ref holds the small executable reference models: the twisted Edwards
// group law on big.Int pairs, integer scalar multiplication, GF(p) arithmetic.
// Nothing here is copied from, or calls, the library under test.
package ref

import (
	"math/big"

	"verifsim/alpha"
)

var (
	p    = alpha.P
	d    = alpha.D
	zero = big.NewInt(0)
	one  = big.NewInt(1)
)

func mod(v *big.Int) *big.Int { return v.Mod(v, p) }
func mul(a, b *big.Int) *big.Int {
	return mod(new(big.Int).Mul(a, b))
}
func add(a, b *big.Int) *big.Int { return mod(new(big.Int).Add(a, b)) }
func sub(a, b *big.Int) *big.Int { return mod(new(big.Int).Sub(a, b)) }

// Aff is an affine point.
type Aff struct{ X, Y *big.Int }

func Identity() Aff { return Aff{big.NewInt(0), big.NewInt(1)} }

func (a Aff) Equal(b Aff) bool { return a.X.Cmp(b.X) == 0 && a.Y.Cmp(b.Y) == 0 }

func (a Aff) OnCurve() bool {
	xx, yy := mul(a.X, a.X), mul(a.Y, a.Y)
	lhs := sub(yy, xx)
	rhs := add(one, mul(d, mul(xx, yy)))
	return lhs.Cmp(rhs) == 0
}

// AddAffine is the complete affine addition law (a = -1):
// x3 = (x1 y2 + y1 x2)/(1 + d x1 x2 y1 y2), y3 = (y1 y2 + x1 x2)/(1 - d x1 x2 y1 y2).
func AddAffine(a, b Aff) Aff {
	x1y2, y1x2 := mul(a.X, b.Y), mul(a.Y, b.X)
	y1y2, x1x2 := mul(a.Y, b.Y), mul(a.X, b.X)
	dxy := mul(d, mul(x1x2, y1y2))
	dx := new(big.Int).ModInverse(add(one, dxy), p)
	dy := new(big.Int).ModInverse(sub(one, dxy), p)
	if dx == nil || dy == nil {
		panic("ref: zero denominator in the complete addition law (operand not on the curve)")
	}
	return Aff{mul(add(x1y2, y1x2), dx), mul(add(y1y2, x1x2), dy)}
}

func Neg(a Aff) Aff { return Aff{sub(zero, a.X), new(big.Int).Set(a.Y)} }

// proj is a homogeneous projective point (X:Y:Z), x = X/Z, y = Y/Z.
type proj struct{ X, Y, Z *big.Int }

func toProj(a Aff) proj { return proj{new(big.Int).Set(a.X), new(big.Int).Set(a.Y), big.NewInt(1)} }

func (q proj) aff() Aff {
	zi := new(big.Int).ModInverse(q.Z, p)
	if zi == nil {
		panic("ref: projective Z == 0")
	}
	return Aff{mul(q.X, zi), mul(q.Y, zi)}
}

// addProj is the homogenised affine law (Bernstein-Birkner-Joye-Lange-Peters 2008).
func addProj(a, b proj) proj {
	A := mul(a.Z, b.Z)
	B := mul(A, A)
	C := mul(a.X, b.X)
	D := mul(a.Y, b.Y)
	E := mul(d, mul(C, D))
	F := sub(B, E)
	G := add(B, E)
	t := mul(add(a.X, a.Y), add(b.X, b.Y))
	t = sub(sub(t, C), D)
	X3 := mul(mul(A, F), t)
	Y3 := mul(mul(A, G), add(D, C)) // D - a*C with a = -1
	Z3 := mul(F, G)
	return proj{X3, Y3, Z3}
}

// ScalarMul returns [k]P for an integer k >= 0 by binary double-and-add.
func ScalarMul(k *big.Int, P Aff) Aff {
	if k.Sign() < 0 {
		panic("ref: negative scalar")
	}
	acc := toProj(Identity())
	base := toProj(P)
	for i := k.BitLen() - 1; i >= 0; i-- {
		acc = addProj(acc, acc)
		if k.Bit(i) == 1 {
			acc = addProj(acc, base)
		}
	}
	return acc.aff()
}

// ScalarMulAffine is the same with the affine law at every step (slow; used to
// cross-validate the projective path at start-up).
func ScalarMulAffine(k *big.Int, P Aff) Aff {
	acc := Identity()
	for i := k.BitLen() - 1; i >= 0; i-- {
		acc = AddAffine(acc, acc)
		if k.Bit(i) == 1 {
			acc = AddAffine(acc, P)
		}
	}
	return acc
}

// MultiMul returns sum [k_i]P_i.
func MultiMul(ks []*big.Int, ps []Aff) Aff {
	acc := Identity()
	for i := range ks {
		acc = AddAffine(acc, ScalarMul(ks[i], ps[i]))
	}
	return acc
}

// Base is the edwards25519 base point: y = 4/5, x even... x is the "positive"
// (even) root per RFC 8032.
var baseCache *Aff

func Base() Aff {
	if baseCache != nil {
		return Aff{new(big.Int).Set(baseCache.X), new(big.Int).Set(baseCache.Y)}
	}
	b := computeBase()
	baseCache = &b
	return Aff{new(big.Int).Set(b.X), new(big.Int).Set(b.Y)}
}

func computeBase() Aff {
	y := mul(big.NewInt(4), new(big.Int).ModInverse(big.NewInt(5), p))
	x, ok := RecoverX(y, 0)
	if !ok {
		panic("ref: base point")
	}
	return Aff{x, y}
}

// RecoverX solves x^2 = (y^2-1)/(d y^2+1); returns the root with parity sign
// (if x == 0 the sign is ignored).
func RecoverX(y *big.Int, sign uint) (*big.Int, bool) {
	yy := mul(y, y)
	u := sub(yy, one)
	v := add(mul(d, yy), one)
	vi := new(big.Int).ModInverse(v, p)
	if vi == nil {
		return nil, false
	}
	x2 := mul(u, vi)
	x := new(big.Int).ModSqrt(x2, p)
	if x == nil {
		return nil, false
	}
	if x.Sign() != 0 && x.Bit(0) != sign {
		x.Sub(p, x)
	}
	return x, true
}

// SelfTest cross-validates the projective and affine paths and a few group facts.
func SelfTest() error {
	B := Base()
	if !B.OnCurve() {
		return errS("base point not on curve")
	}
	if !ScalarMul(alpha.L, B).Equal(Identity()) {
		return errS("[l]B != identity")
	}
	ks := []*big.Int{big.NewInt(0), big.NewInt(1), big.NewInt(2), big.NewInt(12345678901), new(big.Int).Sub(alpha.L, one)}
	for _, k := range ks {
		a, b := ScalarMul(k, B), ScalarMulAffine(k, B)
		if !a.Equal(b) || !a.OnCurve() {
			return errS("projective and affine scalar multiplication disagree")
		}
	}
	if !AddAffine(ScalarMul(ks[4], B), B).Equal(Identity()) {
		return errS("[l-1]B + B != identity")
	}
	return nil
}

type errS string

func (e errS) Error() string { return "ref self-test: " + string(e) }

// ---- field ----

func FAdd(a, b *big.Int) *big.Int { return add(a, b) }
func FSub(a, b *big.Int) *big.Int { return sub(a, b) }
func FNeg(a *big.Int) *big.Int    { return sub(zero, a) }
func FMul(a, b *big.Int) *big.Int { return mul(a, b) }
func FInv(a *big.Int) *big.Int {
	if a.Sign() == 0 {
		return big.NewInt(0)
	}
	return new(big.Int).ModInverse(a, p)
}
func FPow(a, e *big.Int) *big.Int { return new(big.Int).Exp(a, e, p) }

// Pow22523Exp is (p-5)/8 = 2^252-3.
var Pow22523Exp = func() *big.Int {
	e := new(big.Int).Sub(p, big.NewInt(5))
	return e.Rsh(e, 3)
}()
