// Package prng is the single source of choice for a simulated run:
// splitmix64 for seed derivation, xoshiro256** for the stream.
package prng

import "math/bits"

// SplitMix64 advances x and returns the next output.
func SplitMix64(x *uint64) uint64 {
	*x += 0x9e3779b97f4a7c15
	z := *x
	z = (z ^ (z >> 30)) * 0xbf58476d1ce4e5b9
	z = (z ^ (z >> 27)) * 0x94d049bb133111eb
	return z ^ (z >> 31)
}

// Derive computes the seed of run i of a property from the base seed.
func Derive(base uint64, prop string, i uint64) uint64 {
	x := base
	h := SplitMix64(&x)
	for _, c := range []byte(prop) {
		x ^= uint64(c) * 0x100000001b3
		h ^= SplitMix64(&x)
	}
	x ^= i * 0xd6e8feb86659fd93
	h ^= SplitMix64(&x)
	x ^= h
	return SplitMix64(&x)
}

type Rand struct {
	s [4]uint64
	// Draws counts how many 64-bit words were consumed (diagnostics only).
	Draws uint64
}

func New(seed uint64) *Rand {
	r := &Rand{}
	x := seed
	for i := range r.s {
		r.s[i] = SplitMix64(&x)
	}
	return r
}

func (r *Rand) Uint64() uint64 {
	r.Draws++
	s := &r.s
	result := bits.RotateLeft64(s[1]*5, 7) * 9
	t := s[1] << 17
	s[2] ^= s[0]
	s[3] ^= s[1]
	s[1] ^= s[2]
	s[0] ^= s[3]
	s[2] ^= t
	s[3] = bits.RotateLeft64(s[3], 45)
	return result
}

// Intn returns a value in [0,n). n must be > 0.
func (r *Rand) Intn(n int) int {
	if n <= 0 {
		panic("prng: Intn with n <= 0")
	}
	// multiply-shift; bias is negligible for the n used here (< 2^32)
	hi, _ := bits.Mul64(r.Uint64(), uint64(n))
	return int(hi)
}

func (r *Rand) Float64() float64 { return float64(r.Uint64()>>11) / (1 << 53) }

// Bool returns true with probability p.
func (r *Rand) Bool(p float64) bool { return r.Float64() < p }

func (r *Rand) Bytes(n int) []byte {
	b := make([]byte, n)
	for i := 0; i < n; i += 8 {
		v := r.Uint64()
		for j := 0; j < 8 && i+j < n; j++ {
			b[i+j] = byte(v >> (8 * j))
		}
	}
	return b
}

// Weighted picks an index with probability proportional to w[i]. Sum must be > 0.
func (r *Rand) Weighted(w []int) int {
	sum := 0
	for _, x := range w {
		sum += x
	}
	k := r.Intn(sum)
	for i, x := range w {
		if k < x {
			return i
		}
		k -= x
	}
	panic("unreachable")
}
