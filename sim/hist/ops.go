package hist

import (
	"fmt"
	"reflect"
	"sort"
	"strings"
	"unsafe"

	"filippo.io/edwards25519"
	"filippo.io/edwards25519/field"
)

// Operands are the resolved pointers a call is executed on.
type Operands struct {
	RP *edwards25519.Point
	RS *edwards25519.Scalar
	RE *field.Element
	AP []*edwards25519.Point
	AS []*edwards25519.Scalar
	AE []*field.Element
	B  []byte
	// Backing is the whole caller buffer B is a window of (B itself if none).
	Backing []byte
	U       uint32
	C       int
}

func (o *Operands) recvPtr() unsafe.Pointer {
	switch {
	case o.RP != nil:
		return unsafe.Pointer(o.RP)
	case o.RS != nil:
		return unsafe.Pointer(o.RS)
	case o.RE != nil:
		return unsafe.Pointer(o.RE)
	}
	return nil
}

// Outcome is everything observable about one executed call.
type Outcome struct {
	Panicked bool
	PanicMsg string
	HasRet   bool           // the operation returns a pointer of the receiver type
	Ret      unsafe.Pointer // that pointer
	HasErr   bool           // the operation has an error result
	Err      error
	HasInt   bool
	Int      int
	Bytes    []byte
	Elems    []*field.Element // ExtendedCoordinates
}

type OpDesc struct {
	Name       string
	Recv       Kind
	NP, NS, NE int  // pointer arguments per kind (fixed arity)
	Multi      bool // []*Scalar, []*Point arguments (variable arity)
	Bytes      bool // takes a []byte
	U32        bool
	Cond       bool
	Writes     bool // writes the receiver
	SwapArg    bool // also writes AE[0] (Element.Swap)
	RecvInput  bool // the receiver's value is read by the operation
	Fallible   bool // returns (ptr, error)
	Ctor       bool // package-level constructor; result is copied into slot R
	OutElems   bool // returns four *Element (stored into E slots by the harness)
	ScalarMult bool // one of the five C01 entry points
	FieldNine  bool // one of the nine C09 operations
	Pseudo     bool // harness action, not library code
	Dynamic    bool // not in the table: an API addition driven through reflection (dynamic.go)
	Fn         func(o *Operands) Outcome
}

func retP(p *edwards25519.Point) Outcome  { return Outcome{HasRet: true, Ret: unsafe.Pointer(p)} }
func retS(s *edwards25519.Scalar) Outcome { return Outcome{HasRet: true, Ret: unsafe.Pointer(s)} }
func retE(e *field.Element) Outcome       { return Outcome{HasRet: true, Ret: unsafe.Pointer(e)} }
func retPE(p *edwards25519.Point, err error) Outcome {
	return Outcome{HasRet: true, Ret: unsafe.Pointer(p), HasErr: true, Err: err}
}
func retSE(s *edwards25519.Scalar, err error) Outcome {
	return Outcome{HasRet: true, Ret: unsafe.Pointer(s), HasErr: true, Err: err}
}
func retEE(e *field.Element, err error) Outcome {
	return Outcome{HasRet: true, Ret: unsafe.Pointer(e), HasErr: true, Err: err}
}
func retI(i int) Outcome    { return Outcome{HasInt: true, Int: i} }
func retB(b []byte) Outcome { return Outcome{Bytes: b} }

// Alphabet is the complete exported API of both packages.
var Alphabet = []*OpDesc{
	// constructors
	{Name: "NewIdentityPoint", Recv: KPoint, Ctor: true, Fn: func(o *Operands) Outcome { return retP(edwards25519.NewIdentityPoint()) }},
	{Name: "NewGeneratorPoint", Recv: KPoint, Ctor: true, Fn: func(o *Operands) Outcome { return retP(edwards25519.NewGeneratorPoint()) }},
	{Name: "NewScalar", Recv: KScalar, Ctor: true, Fn: func(o *Operands) Outcome { return retS(edwards25519.NewScalar()) }},

	// Point
	{Name: "Point.Set", Recv: KPoint, NP: 1, Writes: true, Fn: func(o *Operands) Outcome { return retP(o.RP.Set(o.AP[0])) }},
	{Name: "Point.Bytes", Recv: KPoint, RecvInput: true, Fn: func(o *Operands) Outcome { return retB(o.RP.Bytes()) }},
	{Name: "Point.SetBytes", Recv: KPoint, Bytes: true, Writes: true, Fallible: true, Fn: func(o *Operands) Outcome { return retPE(o.RP.SetBytes(o.B)) }},
	{Name: "Point.Add", Recv: KPoint, NP: 2, Writes: true, Fn: func(o *Operands) Outcome { return retP(o.RP.Add(o.AP[0], o.AP[1])) }},
	{Name: "Point.Subtract", Recv: KPoint, NP: 2, Writes: true, Fn: func(o *Operands) Outcome { return retP(o.RP.Subtract(o.AP[0], o.AP[1])) }},
	{Name: "Point.Negate", Recv: KPoint, NP: 1, Writes: true, Fn: func(o *Operands) Outcome { return retP(o.RP.Negate(o.AP[0])) }},
	{Name: "Point.Equal", Recv: KPoint, NP: 1, RecvInput: true, Fn: func(o *Operands) Outcome { return retI(o.RP.Equal(o.AP[0])) }},
	{Name: "Point.ExtendedCoordinates", Recv: KPoint, RecvInput: true, OutElems: true, Fn: func(o *Operands) Outcome {
		x, y, z, t := o.RP.ExtendedCoordinates()
		return Outcome{Elems: []*field.Element{x, y, z, t}}
	}},
	{Name: "Point.SetExtendedCoordinates", Recv: KPoint, NE: 4, Writes: true, Fallible: true, Fn: func(o *Operands) Outcome {
		return retPE(o.RP.SetExtendedCoordinates(o.AE[0], o.AE[1], o.AE[2], o.AE[3]))
	}},
	{Name: "Point.BytesMontgomery", Recv: KPoint, RecvInput: true, Fn: func(o *Operands) Outcome { return retB(o.RP.BytesMontgomery()) }},
	{Name: "Point.MultByCofactor", Recv: KPoint, NP: 1, Writes: true, Fn: func(o *Operands) Outcome { return retP(o.RP.MultByCofactor(o.AP[0])) }},
	{Name: "Point.ScalarBaseMult", Recv: KPoint, NS: 1, Writes: true, ScalarMult: true, Fn: func(o *Operands) Outcome { return retP(o.RP.ScalarBaseMult(o.AS[0])) }},
	{Name: "Point.ScalarMult", Recv: KPoint, NS: 1, NP: 1, Writes: true, ScalarMult: true, Fn: func(o *Operands) Outcome { return retP(o.RP.ScalarMult(o.AS[0], o.AP[0])) }},
	{Name: "Point.VarTimeDoubleScalarBaseMult", Recv: KPoint, NS: 2, NP: 1, Writes: true, ScalarMult: true, Fn: func(o *Operands) Outcome {
		return retP(o.RP.VarTimeDoubleScalarBaseMult(o.AS[0], o.AP[0], o.AS[1]))
	}},
	{Name: "Point.MultiScalarMult", Recv: KPoint, Multi: true, Writes: true, ScalarMult: true, Fn: func(o *Operands) Outcome { return retP(o.RP.MultiScalarMult(o.AS, o.AP)) }},
	{Name: "Point.VarTimeMultiScalarMult", Recv: KPoint, Multi: true, Writes: true, ScalarMult: true, Fn: func(o *Operands) Outcome { return retP(o.RP.VarTimeMultiScalarMult(o.AS, o.AP)) }},

	// Scalar
	{Name: "Scalar.MultiplyAdd", Recv: KScalar, NS: 3, Writes: true, Fn: func(o *Operands) Outcome { return retS(o.RS.MultiplyAdd(o.AS[0], o.AS[1], o.AS[2])) }},
	{Name: "Scalar.Add", Recv: KScalar, NS: 2, Writes: true, Fn: func(o *Operands) Outcome { return retS(o.RS.Add(o.AS[0], o.AS[1])) }},
	{Name: "Scalar.Subtract", Recv: KScalar, NS: 2, Writes: true, Fn: func(o *Operands) Outcome { return retS(o.RS.Subtract(o.AS[0], o.AS[1])) }},
	{Name: "Scalar.Negate", Recv: KScalar, NS: 1, Writes: true, Fn: func(o *Operands) Outcome { return retS(o.RS.Negate(o.AS[0])) }},
	{Name: "Scalar.Multiply", Recv: KScalar, NS: 2, Writes: true, Fn: func(o *Operands) Outcome { return retS(o.RS.Multiply(o.AS[0], o.AS[1])) }},
	{Name: "Scalar.Set", Recv: KScalar, NS: 1, Writes: true, Fn: func(o *Operands) Outcome { return retS(o.RS.Set(o.AS[0])) }},
	{Name: "Scalar.SetUniformBytes", Recv: KScalar, Bytes: true, Writes: true, Fallible: true, Fn: func(o *Operands) Outcome { return retSE(o.RS.SetUniformBytes(o.B)) }},
	{Name: "Scalar.SetCanonicalBytes", Recv: KScalar, Bytes: true, Writes: true, Fallible: true, Fn: func(o *Operands) Outcome { return retSE(o.RS.SetCanonicalBytes(o.B)) }},
	{Name: "Scalar.SetBytesWithClamping", Recv: KScalar, Bytes: true, Writes: true, Fallible: true, Fn: func(o *Operands) Outcome { return retSE(o.RS.SetBytesWithClamping(o.B)) }},
	{Name: "Scalar.Bytes", Recv: KScalar, RecvInput: true, Fn: func(o *Operands) Outcome { return retB(o.RS.Bytes()) }},
	{Name: "Scalar.Equal", Recv: KScalar, NS: 1, RecvInput: true, Fn: func(o *Operands) Outcome { return retI(o.RS.Equal(o.AS[0])) }},
	{Name: "Scalar.Invert", Recv: KScalar, NS: 1, Writes: true, Fn: func(o *Operands) Outcome { return retS(o.RS.Invert(o.AS[0])) }},

	// field.Element
	{Name: "Element.Zero", Recv: KElem, Writes: true, Fn: func(o *Operands) Outcome { return retE(o.RE.Zero()) }},
	{Name: "Element.One", Recv: KElem, Writes: true, Fn: func(o *Operands) Outcome { return retE(o.RE.One()) }},
	{Name: "Element.Add", Recv: KElem, NE: 2, Writes: true, FieldNine: true, Fn: func(o *Operands) Outcome { return retE(o.RE.Add(o.AE[0], o.AE[1])) }},
	{Name: "Element.Subtract", Recv: KElem, NE: 2, Writes: true, FieldNine: true, Fn: func(o *Operands) Outcome { return retE(o.RE.Subtract(o.AE[0], o.AE[1])) }},
	{Name: "Element.Negate", Recv: KElem, NE: 1, Writes: true, FieldNine: true, Fn: func(o *Operands) Outcome { return retE(o.RE.Negate(o.AE[0])) }},
	{Name: "Element.Invert", Recv: KElem, NE: 1, Writes: true, FieldNine: true, Fn: func(o *Operands) Outcome { return retE(o.RE.Invert(o.AE[0])) }},
	{Name: "Element.Set", Recv: KElem, NE: 1, Writes: true, Fn: func(o *Operands) Outcome { return retE(o.RE.Set(o.AE[0])) }},
	{Name: "Element.SetBytes", Recv: KElem, Bytes: true, Writes: true, Fallible: true, Fn: func(o *Operands) Outcome { return retEE(o.RE.SetBytes(o.B)) }},
	{Name: "Element.Bytes", Recv: KElem, RecvInput: true, Fn: func(o *Operands) Outcome { return retB(o.RE.Bytes()) }},
	{Name: "Element.Equal", Recv: KElem, NE: 1, RecvInput: true, Fn: func(o *Operands) Outcome { return retI(o.RE.Equal(o.AE[0])) }},
	{Name: "Element.Select", Recv: KElem, NE: 2, Cond: true, Writes: true, Fn: func(o *Operands) Outcome { return retE(o.RE.Select(o.AE[0], o.AE[1], o.C)) }},
	{Name: "Element.Swap", Recv: KElem, NE: 1, Cond: true, Writes: true, SwapArg: true, RecvInput: true, Fn: func(o *Operands) Outcome { o.RE.Swap(o.AE[0], o.C); return Outcome{} }},
	{Name: "Element.IsNegative", Recv: KElem, RecvInput: true, Fn: func(o *Operands) Outcome { return retI(o.RE.IsNegative()) }},
	{Name: "Element.Absolute", Recv: KElem, NE: 1, Writes: true, FieldNine: true, Fn: func(o *Operands) Outcome { return retE(o.RE.Absolute(o.AE[0])) }},
	{Name: "Element.Multiply", Recv: KElem, NE: 2, Writes: true, FieldNine: true, Fn: func(o *Operands) Outcome { return retE(o.RE.Multiply(o.AE[0], o.AE[1])) }},
	{Name: "Element.Square", Recv: KElem, NE: 1, Writes: true, FieldNine: true, Fn: func(o *Operands) Outcome { return retE(o.RE.Square(o.AE[0])) }},
	{Name: "Element.Mult32", Recv: KElem, NE: 1, U32: true, Writes: true, FieldNine: true, Fn: func(o *Operands) Outcome { return retE(o.RE.Mult32(o.AE[0], o.U)) }},
	{Name: "Element.Pow22523", Recv: KElem, NE: 1, Writes: true, FieldNine: true, Fn: func(o *Operands) Outcome { return retE(o.RE.Pow22523(o.AE[0])) }},
	{Name: "Element.SqrtRatio", Recv: KElem, NE: 2, Writes: true, Fn: func(o *Operands) Outcome {
		r, ws := o.RE.SqrtRatio(o.AE[0], o.AE[1])
		return Outcome{HasRet: true, Ret: unsafe.Pointer(r), HasInt: true, Int: ws}
	}},
	{Name: "Element.SetWideBytes", Recv: KElem, Bytes: true, Writes: true, Fallible: true, Fn: func(o *Operands) Outcome { return retEE(o.RE.SetWideBytes(o.B)) }},

	// harness pseudo-operations (things a caller does without the library)
	{Name: "H.ZeroPoint", Recv: KPoint, Pseudo: true}, // var p Point
	{Name: "H.Scribble", Recv: KNone, Pseudo: true},   // mutate a previously returned value
	{Name: "H.Probe", Recv: KNone, Pseudo: true},      // re-issue a recorded call on copies
	{Name: "H.Flood", Recv: KNone, Pseudo: true},      // one operation on L distinct inputs, then on the same inputs again
	{Name: "H.GC", Recv: KNone, Pseudo: true},         // two forced collections: sync.Pool and its victim cache are emptied
	{Name: "H.CopyOut", Recv: KNone, Pseudo: true},    // copy a returned Element/Point/Scalar into a slot
}

var opIndex = func() map[string]*OpDesc {
	m := map[string]*OpDesc{}
	for _, o := range Alphabet {
		if m[o.Name] != nil {
			panic("duplicate op " + o.Name)
		}
		m[o.Name] = o
	}
	return m
}()

func Op(name string) *OpDesc {
	o := opIndex[name]
	if o == nil {
		panic("unknown op " + name)
	}
	return o
}

// CheckAlphabetClosed enumerates the exported methods of *Point, *Scalar and
// *field.Element by reflection and fails if one is missing from the table (or
// the table names a method that no longer exists).
func CheckAlphabetClosed() error {
	types := map[string]reflect.Type{
		"Point":   reflect.TypeOf(&edwards25519.Point{}),
		"Scalar":  reflect.TypeOf(&edwards25519.Scalar{}),
		"Element": reflect.TypeOf(&field.Element{}),
	}
	seen := map[string]bool{}
	var missing []string
	kinds := map[string]Kind{"Point": KPoint, "Scalar": KScalar, "Element": KElem}
	for _, tn := range []string{"Point", "Scalar", "Element"} {
		t := types[tn]
		for i := 0; i < t.NumMethod(); i++ {
			n := tn + "." + t.Method(i).Name
			seen[n] = true
			if opIndex[n] == nil {
				if d := registerDynamic(n, kinds[tn], t, t.Method(i)); d != nil {
					Alphabet = append(Alphabet, d)
					opIndex[n] = d
					DynamicOps = append(DynamicOps, n)
					switch d.Recv {
					case KPoint:
						pointOps = append(pointOps, n)
					case KScalar:
						scalarOps = append(scalarOps, n)
					case KElem:
						elemOps = append(elemOps, n)
					}
					continue
				}
				missing = append(missing, n)
			}
		}
	}
	for _, o := range Alphabet {
		if o.Ctor || o.Pseudo {
			continue
		}
		if !seen[o.Name] {
			missing = append(missing, "(gone) "+o.Name)
		}
	}
	sort.Strings(missing)
	var gone []string
	Unexercised = nil
	for _, m := range missing {
		if strings.HasPrefix(m, "(gone)") {
			gone = append(gone, m)
		} else {
			Unexercised = append(Unexercised, m)
		}
	}
	if len(gone) > 0 {
		return fmt.Errorf("alphabet names methods that no longer exist: %v", gone)
	}
	return nil
}

// Unexercised lists exported methods that exist in the tree being checked but
// are not in the operation table (API additions): they are reported in the
// worker output and evidence, not silently ignored, but they do not stop the
// checks of the properties, which are stated over the known API.
var Unexercised []string

// run executes the operation under recover.
func (d *OpDesc) run(o *Operands) (out Outcome) {
	defer func() {
		if r := recover(); r != nil {
			out = Outcome{Panicked: true, PanicMsg: fmt.Sprint(r)}
		}
	}()
	return d.Fn(o)
}
