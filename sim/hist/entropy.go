package hist

import (
	crand "crypto/rand"
	mrand "math/rand"

	"verifsim/prng"
)

// The library under test draws no randomness today, but if it ever does
// (coordinate blinding, randomised recodings) that is one more source of
// nondeterminism that has to sit behind a seam the simulator owns: every
// history starts with crypto/rand.Reader and the global math/rand source reset
// to the same seeded stream, so a run is still a function of its trace alone
// and the two builds compared by C20 see the same "random" values.
//
// (The C18 scheduler processes keep the real crypto/rand: its Reader is called
// from several tasks at once and the simulator's stream is not synchronised -
// adding a lock there would add happens-before edges between tasks.)
type detReader struct{ r *prng.Rand }

func (d *detReader) Read(p []byte) (int, error) {
	copy(p, d.r.Bytes(len(p)))
	return len(p), nil
}

func resetEntropy() {
	crand.Reader = &detReader{r: prng.New(0x656e74726f7079)}
	mrand.Seed(0x656e74726f7079)
}
