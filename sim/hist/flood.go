package hist

import (
	"fmt"
	"math/big"

	"filippo.io/edwards25519"
	"filippo.io/edwards25519/field"

	"verifsim/alpha"
	"verifsim/prng"
	"verifsim/ref"
)

// floodClasses are the operations H.Flood can repeat on many distinct inputs.
var floodClasses = []string{"Point.SetBytes", "Scalar.SetCanonicalBytes", "Scalar.SetUniformBytes", "Point.ScalarMult",
	"Point.VarTimeDoubleScalarBaseMult", "Element.SetBytes", "Point.VarTimeMultiScalarMult"}

// flood is the long-history fault: one operation is called on N distinct
// inputs in a row (N up to tens of thousands: more than any bounded cache,
// memo table or pooled scratch an implementation may plausibly keep per input),
// then on the same inputs again in another order. "Identical output no matter
// what was computed before" (C19): the second answer to every input must be
// the first one. The first and last answers are also compared with the
// reference model, so that a consistently wrong pair does not pass.
func (r *Run) flood(c *Call) (vs []*Violation) {
	n := c.L
	if n <= 0 || n > 200000 {
		r.Stats.Inc("skipped_steps")
		return nil
	}
	class := floodClasses[int(c.U)%len(floodClasses)]
	line := fmt.Sprintf("%d %s\n", r.StepNo, c.String())
	r.hv.Write([]byte(line))
	r.hr.Write([]byte(line))
	defer func() {
		if x := recover(); x != nil {
			vs = append(vs, r.viol("C19", "not-a-pure-function", "flood/"+class+"/panic", fmt.Sprintf("%s panicked on valid input number ? of a run of %d distinct inputs: %v", class, n, x)))
		}
	}()
	rng := prng.New(c.Mode | 1)
	r.Stats.Inc("fault/flood/" + class)
	r.Stats.Inc("oracle/C19/flood")
	r.Stats.Add("probe/C19/flood_inputs", int64(n))
	r.ev("C19")

	// distinct points Q_i = Q_0 + i*B, built with the library's own Add (workload),
	// Q_0 = [k]B from the reference model
	k0 := new(big.Int).SetUint64(rng.Uint64()>>8 + 2)
	q0 := ref.ScalarMul(k0, ref.Base())
	b := ref.Base()
	needPoints := class == "Point.SetBytes" || class == "Point.ScalarMult" || class == "Point.VarTimeDoubleScalarBaseMult" || class == "Point.VarTimeMultiScalarMult"
	var pts []*edwards25519.Point
	if needPoints {
		B := PointFromAffine(b.X, b.Y)
		cur := PointFromAffine(q0.X, q0.Y)
		for i := 0; i < n; i++ {
			pts = append(pts, new(edwards25519.Point).Set(cur))
			cur = new(edwards25519.Point).Add(cur, B)
		}
	}
	sa := ScalarFromInt(new(big.Int).SetUint64(rng.Uint64()))
	sb := ScalarFromInt(new(big.Int).Lsh(new(big.Int).SetUint64(rng.Uint64()), 150))
	input := func(i int) []byte {
		switch class {
		case "Point.SetBytes":
			return pts[i].Bytes()
		case "Scalar.SetCanonicalBytes", "Element.SetBytes":
			v := new(big.Int).Lsh(new(big.Int).SetUint64(uint64(i)+1), uint(c.Mode>>4)%180)
			v.Add(v, k0)
			e := alpha.LE32(v)
			return e[:]
		case "Scalar.SetUniformBytes":
			w := prng.New(c.Mode + uint64(i)*0x9e3779b97f4a7c15).Bytes(64)
			return w
		}
		return nil
	}
	call := func(i int) string {
		switch class {
		case "Point.SetBytes":
			p, err := new(edwards25519.Point).SetBytes(input(i))
			if err != nil {
				return "err:" + err.Error()
			}
			return valueDigestPoint(alpha.PointLimbs(p))
		case "Scalar.SetCanonicalBytes":
			s, err := new(edwards25519.Scalar).SetCanonicalBytes(input(i))
			if err != nil {
				return "err:" + err.Error()
			}
			return valueDigestScalar(alpha.ScalarLimbs(s))
		case "Scalar.SetUniformBytes":
			s, err := new(edwards25519.Scalar).SetUniformBytes(input(i))
			if err != nil {
				return "err:" + err.Error()
			}
			return valueDigestScalar(alpha.ScalarLimbs(s))
		case "Element.SetBytes":
			e, err := new(field.Element).SetBytes(input(i))
			if err != nil {
				return "err:" + err.Error()
			}
			return valueDigestElem(alpha.ElemLimbs(e))
		case "Point.ScalarMult":
			return valueDigestPoint(alpha.PointLimbs(new(edwards25519.Point).ScalarMult(sa, pts[i])))
		case "Point.VarTimeDoubleScalarBaseMult":
			return valueDigestPoint(alpha.PointLimbs(new(edwards25519.Point).VarTimeDoubleScalarBaseMult(sa, pts[i], sb)))
		default: // Point.VarTimeMultiScalarMult, two terms
			j := (i + 1) % n
			return valueDigestPoint(alpha.PointLimbs(new(edwards25519.Point).VarTimeMultiScalarMult([]*edwards25519.Scalar{sa, sb}, []*edwards25519.Point{pts[i], pts[j]})))
		}
	}
	first := make([]string, n)
	for i := 0; i < n; i++ {
		first[i] = call(i)
	}
	// reference check of the first and the last answer
	for _, i := range []int{0, n - 1} {
		want := ""
		qi := ref.AddAffine(q0, ref.ScalarMul(big.NewInt(int64(i)), b))
		ka, kb := alpha.ScalarVal(alpha.ScalarLimbs(sa)), alpha.ScalarVal(alpha.ScalarLimbs(sb))
		switch class {
		case "Point.SetBytes":
			want = valueDigestPoint(alpha.PointLimbs(PointFromAffine(qi.X, qi.Y)))
		case "Point.ScalarMult":
			w := ref.ScalarMul(ka, qi)
			want = valueDigestPoint(alpha.PointLimbs(PointFromAffine(w.X, w.Y)))
		case "Point.VarTimeDoubleScalarBaseMult":
			w := ref.AddAffine(ref.ScalarMul(ka, qi), ref.ScalarMul(kb, b))
			want = valueDigestPoint(alpha.PointLimbs(PointFromAffine(w.X, w.Y)))
		case "Point.VarTimeMultiScalarMult":
			qj := ref.AddAffine(q0, ref.ScalarMul(big.NewInt(int64((i+1)%n)), b))
			w := ref.AddAffine(ref.ScalarMul(ka, qi), ref.ScalarMul(kb, qj))
			want = valueDigestPoint(alpha.PointLimbs(PointFromAffine(w.X, w.Y)))
		}
		if want != "" && first[i] != want {
			return append(vs, r.viol("C19", "not-a-pure-function", "flood/"+class+"/first-pass",
				fmt.Sprintf("%s on input %d of a run of %d distinct inputs returned %s, the reference model says %s", class, i, n, first[i], want)))
		}
	}
	// second pass, another order
	step := 1 + int(rng.Uint64()%7)*2
	for gcdInt(step, n) != 1 {
		step++
	}
	for k, i := 0, int(rng.Uint64()%uint64(n)); k < n; k, i = k+1, (i+step)%n {
		if got := call(i); got != first[i] {
			return append(vs, r.viol("C19", "not-a-pure-function", "flood/"+class,
				fmt.Sprintf("%s answered input %d differently the second time, after %d distinct inputs had been processed in between:\n  first: %s\n  now:   %s", class, i, n, first[i], got)))
		}
	}
	return vs
}

func gcdInt(a, b int) int {
	for b != 0 {
		a, b = b, a%b
	}
	return a
}
