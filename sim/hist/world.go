// Package hist is the history simulator: a world of long-lived slots, an
// operation alphabet covering the whole exported API, seeded workload and
// fault generation, and the oracles of the claimed properties.
package hist

import (
	"math/big"
	"unsafe"

	"filippo.io/edwards25519"
	"filippo.io/edwards25519/field"

	"verifsim/alpha"
)

type Kind int

const (
	KNone Kind = iota
	KPoint
	KScalar
	KElem
)

func (k Kind) String() string {
	return [...]string{"none", "point", "scalar", "elem"}[k]
}

// World is the set of slots the simulated caller owns. Slots live in
// contiguous arrays so that address-range checks are simple.
type World struct {
	pArr []edwards25519.Point
	sArr []edwards25519.Scalar
	eArr []field.Element
	P    []*edwards25519.Point
	S    []*edwards25519.Scalar
	E    []*field.Element
}

func NewWorld(nP, nS, nE int) *World {
	w := &World{
		pArr: make([]edwards25519.Point, nP),
		sArr: make([]edwards25519.Scalar, nS),
		eArr: make([]field.Element, nE),
	}
	for i := range w.pArr {
		w.P = append(w.P, &w.pArr[i])
	}
	for i := range w.sArr {
		w.S = append(w.S, &w.sArr[i])
	}
	for i := range w.eArr {
		w.E = append(w.E, &w.eArr[i])
	}
	return w
}

// Snap is a raw bit-copy of every slot.
type Snap struct {
	P []alpha.PointRaw
	S []alpha.ScalarRaw
	E []alpha.Limbs
}

func (w *World) Snapshot() *Snap {
	s := &Snap{
		P: make([]alpha.PointRaw, len(w.P)),
		S: make([]alpha.ScalarRaw, len(w.S)),
		E: make([]alpha.Limbs, len(w.E)),
	}
	for i, p := range w.P {
		s.P[i] = alpha.PointLimbs(p)
	}
	for i, x := range w.S {
		s.S[i] = alpha.ScalarLimbs(x)
	}
	for i, e := range w.E {
		s.E[i] = alpha.ElemLimbs(e)
	}
	return s
}

// Restore writes the snapshot back into the slots (raw memory).
func (w *World) Restore(s *Snap) {
	for i := range w.P {
		setPointRaw(w.P[i], s.P[i])
	}
	for i := range w.S {
		setScalarRaw(w.S[i], s.S[i])
	}
	for i := range w.E {
		setElemRaw(w.E[i], s.E[i])
	}
}

func setPointRaw(p *edwards25519.Point, r alpha.PointRaw) {
	alpha.SetPointLimbs(p, r)
}
func setScalarRaw(s *edwards25519.Scalar, r alpha.ScalarRaw) {
	*(*alpha.ScalarRaw)(unsafe.Pointer(s)) = r
}
func setElemRaw(e *field.Element, r alpha.Limbs) {
	*(*alpha.Limbs)(unsafe.Pointer(e)) = r
}

func newPointRaw(r alpha.PointRaw) *edwards25519.Point {
	p := new(edwards25519.Point)
	setPointRaw(p, r)
	return p
}
func newScalarRaw(r alpha.ScalarRaw) *edwards25519.Scalar {
	s := new(edwards25519.Scalar)
	setScalarRaw(s, r)
	return s
}
func newElemRaw(r alpha.Limbs) *field.Element {
	e := new(field.Element)
	setElemRaw(e, r)
	return e
}

// addrRange returns [lo,hi) of the memory of a value of n bytes at p.
func addrRange(p unsafe.Pointer, n uintptr) (uintptr, uintptr) {
	return uintptr(p), uintptr(p) + n
}

// slotRanges returns the three address ranges covered by the world's slots.
func (w *World) slotRanges() [][2]uintptr {
	var out [][2]uintptr
	if len(w.pArr) > 0 {
		lo := uintptr(unsafe.Pointer(&w.pArr[0]))
		out = append(out, [2]uintptr{lo, lo + uintptr(len(w.pArr))*alpha.PointSize})
	}
	if len(w.sArr) > 0 {
		lo := uintptr(unsafe.Pointer(&w.sArr[0]))
		out = append(out, [2]uintptr{lo, lo + uintptr(len(w.sArr))*alpha.ScalarSize})
	}
	if len(w.eArr) > 0 {
		lo := uintptr(unsafe.Pointer(&w.eArr[0]))
		out = append(out, [2]uintptr{lo, lo + uintptr(len(w.eArr))*alpha.ElemSize})
	}
	return out
}

// PointFromAffine builds a Point (X:Y:1:XY) directly in memory, without calling
// the library.
func PointFromAffine(x, y *big.Int) *edwards25519.Point {
	t := new(big.Int).Mul(x, y)
	t.Mod(t, alpha.P)
	return newPointRaw(alpha.PointRaw{X: alpha.LimbsOf(x), Y: alpha.LimbsOf(y), Z: alpha.Limbs{1}, T: alpha.LimbsOf(t)})
}

// ScalarFromInt builds a Scalar directly in memory, without calling the library.
func ScalarFromInt(k *big.Int) *edwards25519.Scalar {
	return newScalarRaw(alpha.MontgomeryOf(new(big.Int).Mod(k, alpha.L)))
}

// PointFromProjective builds (xZ : yZ : Z : xyZ) directly in memory.
func PointFromProjective(x, y, z *big.Int) *edwards25519.Point {
	m := func(a, b *big.Int) *big.Int { v := new(big.Int).Mul(a, b); return v.Mod(v, alpha.P) }
	return newPointRaw(alpha.PointRaw{X: alpha.LimbsOf(m(x, z)), Y: alpha.LimbsOf(m(y, z)), Z: alpha.LimbsOf(new(big.Int).Mod(z, alpha.P)), T: alpha.LimbsOf(m(m(x, y), z))})
}

// ElemFromInt builds a field element directly in memory; unreduced moves 2^51
// from limb 1 into limb 0 when possible (same value, limb 0 has bit 51 set).
func ElemFromInt(v *big.Int, unreduced bool) *field.Element {
	l := alpha.LimbsOf(new(big.Int).Mod(v, alpha.P))
	if unreduced && l[1] > 0 {
		l[1]--
		l[0] += 1 << 51
	}
	return newElemRaw(l)
}
