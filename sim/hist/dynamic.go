package hist

import (
	"reflect"

	"filippo.io/edwards25519"
	"filippo.io/edwards25519/field"
)

// Exported methods that the operation table does not know (API additions) are
// still part of "any sequence of public operations". Nothing is known about
// what they compute, so they get no reference model; but when their signature
// only uses types the simulator can supply they are called through reflection
// in histories and enumerations, under the oracles that hold for every
// operation whatever it means:
//
//   - C12: every Point slot they change must be a valid point;
//   - C09: every coordinate / element they leave behind respects the limb bound;
//   - C15: a zero-value Point at an argument position must panic, unless the
//     call turned out to be plain copying (the receiver ends up bit-identical to
//     its previous content or to one of the arguments);
//   - C19: re-issued on bit-copies of its operands the call gives the same result.
//
// Deliberately not applied, because they depend on what the receiver and the
// arguments are *for*: the frame rule (a new Swap-like method may write its
// argument), the aliasing differential, the zero-value-receiver rules, "returns
// its receiver", and the receiver-varied purity probe.

// DynamicOps lists the names registered by registerDynamic.
var DynamicOps []string

var (
	tPoint  = reflect.TypeOf(&edwards25519.Point{})
	tScalar = reflect.TypeOf(&edwards25519.Scalar{})
	tElem   = reflect.TypeOf(&field.Element{})
	tInt    = reflect.TypeOf(int(0))
	tBool   = reflect.TypeOf(false)
	tBytes  = reflect.TypeOf([]byte(nil))
	tError  = reflect.TypeOf((*error)(nil)).Elem()
)

// registerDynamic builds an operation descriptor for method m of receiver
// type t (one of *Point, *Scalar, *Element) or returns nil when the signature
// is outside what the simulator can drive.
func registerDynamic(name string, kind Kind, t reflect.Type, m reflect.Method) *OpDesc {
	mt := m.Type // In(0) is the receiver
	if mt.IsVariadic() {
		return nil
	}
	d := &OpDesc{Name: name, Recv: kind, Dynamic: true, Writes: true}
	var order []reflect.Type
	for i := 1; i < mt.NumIn(); i++ {
		switch mt.In(i) {
		case tPoint:
			d.NP++
		case tScalar:
			d.NS++
		case tElem:
			d.NE++
		case tInt:
			if d.Cond {
				return nil
			}
			d.Cond = true
		default:
			return nil
		}
		order = append(order, mt.In(i))
	}
	// results: none | T | int | bool | []byte | (T, error)
	shape := ""
	switch mt.NumOut() {
	case 0:
		shape = "none"
	case 1:
		switch mt.Out(0) {
		case t:
			shape = "ptr"
		case tInt:
			shape = "int"
		case tBool:
			shape = "bool"
		case tBytes:
			shape = "bytes"
		}
	case 2:
		if mt.Out(0) == t && mt.Out(1) == tError {
			shape = "ptrerr"
		}
	}
	if shape == "" {
		return nil
	}
	mname := m.Name
	d.Fn = func(o *Operands) Outcome {
		var recv reflect.Value
		switch kind {
		case KPoint:
			recv = reflect.ValueOf(o.RP)
		case KScalar:
			recv = reflect.ValueOf(o.RS)
		default:
			recv = reflect.ValueOf(o.RE)
		}
		var args []reflect.Value
		ip, is, ie := 0, 0, 0
		for _, at := range order {
			switch at {
			case tPoint:
				args = append(args, reflect.ValueOf(o.AP[ip]))
				ip++
			case tScalar:
				args = append(args, reflect.ValueOf(o.AS[is]))
				is++
			case tElem:
				args = append(args, reflect.ValueOf(o.AE[ie]))
				ie++
			default:
				args = append(args, reflect.ValueOf(o.C))
			}
		}
		res := recv.MethodByName(mname).Call(args)
		switch shape {
		case "int":
			return retI(int(res[0].Int()))
		case "bool":
			if res[0].Bool() {
				return retI(1)
			}
			return retI(0)
		case "bytes":
			return retB(res[0].Bytes())
		case "ptr":
			// (not HasRet: whether the method is meant to return its receiver is unknown)
			return Outcome{}
		case "ptrerr":
			var err error
			if !res[1].IsNil() {
				err = res[1].Interface().(error)
			}
			return Outcome{HasErr: true, Err: err}
		}
		return Outcome{}
	}
	return d
}
