package hist

import (
	"fmt"
	"runtime"

	"verifsim/alpha"
	"verifsim/prng"
	"verifsim/ref"
)

// Init runs the guards that must hold before any verdict is believed.
func Init() error {
	if err := alpha.Guard(); err != nil {
		return fmt.Errorf("layout guard: %v", err)
	}
	if err := ref.SelfTest(); err != nil {
		return err
	}
	if err := CheckAlphabetClosed(); err != nil {
		return err
	}
	return nil
}

// InitNoLibrary is Init without any call into the library under test.
func InitNoLibrary() error {
	if err := alpha.GuardLayoutOnly(); err != nil {
		return fmt.Errorf("layout guard: %v", err)
	}
	if err := ref.SelfTest(); err != nil {
		return err
	}
	return CheckAlphabetClosed()
}

var scalarMultOps = []string{"Point.ScalarBaseMult", "Point.ScalarMult", "Point.VarTimeDoubleScalarBaseMult", "Point.MultiScalarMult", "Point.VarTimeMultiScalarMult"}

func opsOf(pred func(o *OpDesc) bool) []string {
	var out []string
	for _, o := range Alphabet {
		if !o.Pseudo && pred(o) {
			out = append(out, o.Name)
		}
	}
	return out
}

var (
	pointOps  = opsOf(func(o *OpDesc) bool { return o.Recv == KPoint })
	scalarOps = opsOf(func(o *OpDesc) bool { return o.Recv == KScalar })
	elemOps   = opsOf(func(o *OpDesc) bool { return o.Recv == KElem })
)

func pickF(rng *prng.Rand, xs ...float64) float64 { return xs[rng.Intn(len(xs))] }

// swarm gives every op in names a weight in [lo,hi], switching each off with
// probability pOff.
func swarm(rng *prng.Rand, w map[string]int, names []string, lo, hi int, pOff float64) {
	for _, n := range names {
		if rng.Bool(pOff) {
			w[n] = 0
			continue
		}
		w[n] = lo + rng.Intn(hi-lo+1)
	}
}

// Profile draws the configuration of one run of a property's check.
// sub selects a sub-workload where a property has several (C20).
func Profile(prop string, rng *prng.Rand, idx uint64) *GenCfg {
	c := &GenCfg{W: map[string]int{}, ScalarFlav: make([]int, 9), EnumDraws: 1}
	for i := range c.ScalarFlav {
		c.ScalarFlav[i] = 1 + rng.Intn(4)
		if rng.Bool(0.25) {
			c.ScalarFlav[i] = 0
		}
	}
	c.ScalarFlav[0]++ // never all zero
	c.AliasP = pickF(rng, 0, 0.2, 0.6)
	c.NP, c.NS, c.NE = 4+rng.Intn(5), 3+rng.Intn(4), 5+rng.Intn(4)
	if prop != "C09" && prop != "C14" && prop != "C15" {
		c.PRelatives = pickF(rng, 0, 0.03, 0.08)
	}
	c.PBigList = 0.02
	c.PGC = pickF(rng, 0, 0, 0.01, 0.04)
	switch prop {
	case "C01":
		c.PBigList = pickF(rng, 0.02, 0.06, 0.2)
		c.Steps = 12 + rng.Intn(30)
		swarm(rng, c.W, pointOps, 1, 3, 0.3)
		swarm(rng, c.W, scalarOps, 1, 3, 0.3)
		swarm(rng, c.W, []string{"Element.Multiply", "Element.Add", "Element.SetBytes", "Element.Invert"}, 1, 2, 0.3)
		swarm(rng, c.W, scalarMultOps, 8, 14, 0.15)
		any := false
		for _, n := range scalarMultOps {
			any = any || c.W[n] > 0
		}
		if !any {
			c.W[scalarMultOps[rng.Intn(5)]] = 10
		}
		c.PZeroRecv = pickF(rng, 0, 0.1, 0.3)
		c.PImport = pickF(rng, 0, 0.05, 0.15)
	case "C05":
		c.Steps = 20 + rng.Intn(50)
		c.AliasP = pickF(rng, 0, 0, 0.2)
		swarm(rng, c.W, pointOps, 1, 6, 0.25)
		swarm(rng, c.W, scalarOps, 1, 2, 0.5)
		swarm(rng, c.W, []string{"Element.Multiply", "Element.Add", "Element.SetBytes", "Element.Invert", "Element.Mult32", "Element.Subtract"}, 1, 2, 0.3)
		c.W["Point.Bytes"] += 2
		c.W["Point.SetBytes"] += 3
		c.PImport = pickF(rng, 0.05, 0.15, 0.3)
		c.PZeroRecv = pickF(rng, 0, 0.1)
	case "C09":
		if idx%4 == 3 {
			// point world: the limb bound must also hold for the coordinates that
			// point operations leave behind (they are Elements too)
			c.Steps = 15 + rng.Intn(30)
			swarm(rng, c.W, pointOps, 1, 6, 0.2)
			swarm(rng, c.W, scalarOps, 1, 2, 0.4)
			swarm(rng, c.W, elemOps, 1, 4, 0.2)
			c.PImport = pickF(rng, 0.1, 0.3)
			c.PZeroRecv = 0.1
			break
		}
		c.NP, c.NS = 0, 0
		c.NE = 8 + rng.Intn(9)
		c.Steps = 30 + rng.Intn(60)
		swarm(rng, c.W, elemOps, 1, 8, 0.2)
		if rng.Bool(0.5) {
			// carry-free chains maximise limbs
			c.MaxLimbBias = true
			c.W["Element.Mult32"] += 10
			c.W["Element.Add"] += 4
			c.W["Element.Subtract"] += 4
			c.W["Element.SetWideBytes"] += 2
		}
		// the expensive exponentiations are kept rarer
		for _, n := range []string{"Element.Invert", "Element.Pow22523", "Element.SqrtRatio"} {
			if c.W[n] > 2 {
				c.W[n] = 2
			}
		}
	case "C11":
		c.NP, c.NS, c.NE = 6+rng.Intn(3), 5+rng.Intn(2), 6+rng.Intn(3)
		c.Steps = 10 + rng.Intn(25)
		c.AliasP = 0.6
		swarm(rng, c.W, pointOps, 1, 4, 0.1)
		swarm(rng, c.W, scalarOps, 1, 4, 0.1)
		swarm(rng, c.W, elemOps, 1, 4, 0.1)
		c.PImport = 0.1
		c.Enum = "alias"
		if idx%5 == 4 {
			// field-only world: the element operations are enumerated on operands
			// that no point or scalar operation had to produce first
			c.NP, c.NS = 0, 0
			c.NE = 8 + rng.Intn(5)
			c.PImport = 0
		}
	case "C12":
		c.Steps = 20 + rng.Intn(50)
		swarm(rng, c.W, pointOps, 1, 8, 0.2)
		swarm(rng, c.W, scalarOps, 1, 3, 0.3)
		swarm(rng, c.W, elemOps, 1, 3, 0.3)
		c.PMisuse = pickF(rng, 0, 0.03, 0.08)
		c.PRejectLen = pickF(rng, 0, 0.05, 0.1)
		c.PRejectSem = pickF(rng, 0, 0.1, 0.2)
		c.PImport = pickF(rng, 0.05, 0.15, 0.3)
		c.PZeroRecv = pickF(rng, 0, 0.1, 0.3)
	case "C14":
		c.Steps = 10 + rng.Intn(30)
		swarm(rng, c.W, pointOps, 1, 4, 0.2)
		swarm(rng, c.W, scalarOps, 1, 4, 0.2)
		swarm(rng, c.W, elemOps, 1, 4, 0.2)
		for _, o := range Alphabet {
			if o.Fallible {
				c.W[o.Name] += 6
			}
		}
		c.PRejectLen = pickF(rng, 0.15, 0.3)
		c.PRejectSem = pickF(rng, 0.15, 0.3)
		c.PImport = 0.15
		c.PZeroRecv = 0.1
		if idx%2 == 0 {
			c.Enum = "reject"
		}
	case "C15":
		c.Steps = 8 + rng.Intn(25)
		swarm(rng, c.W, pointOps, 1, 4, 0.15)
		swarm(rng, c.W, scalarOps, 1, 2, 0.3)
		c.PMisuse = pickF(rng, 0.1, 0.25)
		c.PZeroRecv = pickF(rng, 0.1, 0.3)
		c.PImport = 0.05
		if idx%2 == 0 {
			c.Enum = "misuse"
		}
	case "C19":
		c.Steps = 25 + rng.Intn(50)
		swarm(rng, c.W, pointOps, 1, 4, 0.15)
		swarm(rng, c.W, scalarOps, 1, 3, 0.2)
		swarm(rng, c.W, elemOps, 1, 2, 0.3)
		for _, n := range []string{"NewIdentityPoint", "NewGeneratorPoint", "NewScalar", "Point.Bytes", "Point.BytesMontgomery",
			"Point.ExtendedCoordinates", "Scalar.Bytes", "Element.Bytes"} {
			c.W[n] = 3 + rng.Intn(4)
		}
		c.PFlood = 3e-4
		c.PScribble = pickF(rng, 0.1, 0.2)
		c.PProbe = pickF(rng, 0.1, 0.2)
		c.PImport = 0.05
		c.PZeroRecv = 0.05
	case "C20":
		if idx%2 == 0 {
			// field world
			c.NP, c.NS = 0, 0
			c.NE = 8 + rng.Intn(9)
			c.Steps = 30 + rng.Intn(60)
			swarm(rng, c.W, elemOps, 1, 8, 0.2)
			c.W["Element.Multiply"] += 6
			c.W["Element.Square"] += 6
			if rng.Bool(0.5) {
				c.W["Element.Mult32"] += 8
				c.W["Element.Add"] += 4
				c.W["Element.Subtract"] += 4
			}
		} else {
			c.Steps = 15 + rng.Intn(40)
			swarm(rng, c.W, pointOps, 1, 6, 0.2)
			swarm(rng, c.W, scalarOps, 1, 3, 0.3)
			swarm(rng, c.W, elemOps, 1, 3, 0.3)
			c.PImport = pickF(rng, 0.05, 0.15)
			c.PZeroRecv = 0.1
			c.PRejectSem = 0.05
			c.PRejectLen = 0.03
		}
	default:
		panic("no profile for " + prop)
	}
	if idx%50 == 0 && (prop == "C01" || prop == "C05" || prop == "C12" || prop == "C14" || prop == "C15" || prop == "C19") {
		c.ColdFirst = true
	}
	switch prop {
	case "C01", "C11", "C12", "C15", "C19":
		// big pools: term lists whose points and scalars are (nearly) all distinct -
		// thresholds in the number of DISTINCT operands of one call, not only in its
		// length
		if rng.Bool(0.03) && c.NP > 0 {
			c.NP = 17 + rng.Intn(120)
			c.NS = 17 + rng.Intn(40)
			if c.PBigList < 0.2 {
				c.PBigList = 0.2
			}
			c.BigPool = true
		}
	}
	return c
}

// RunResult is the outcome of one simulated run.
type RunResult struct {
	Idx        uint64     `json:"run_index"`
	Seed       uint64     `json:"seed"`
	Steps      int        `json:"steps"`
	ValueHash  string     `json:"value_hash"`
	RawHash    string     `json:"raw_hash"`
	Violation  *Violation `json:"violation,omitempty"`
	Foreign    *Violation `json:"foreign,omitempty"`
	Known      []string   `json:"known,omitempty"`
	Trace      *Trace     `json:"trace,omitempty"`
	Transcript []string   `json:"transcript,omitempty"`
	Evals      int        `json:"evals"`
}

type Env struct {
	Known      []KnownFinding
	PkgSnap    func() []byte
	Transcript bool
	KeepTrace  bool // attach the trace even without a violation (samples)
	Build      string
}

// RunSeed executes run idx of prop under base seed.
func RunSeed(prop string, base, idx uint64, st *Stats, env *Env) *RunResult {
	seed := prng.Derive(base, prop, idx)
	rng := prng.New(seed)
	if prop == "C09" && idx%64 == 5 {
		// objective-guided search for large limbs (climb.go)
		res := &RunResult{Idx: idx, Seed: seed}
		ClimbRun(rng, st, env, res, base)
		return res
	}
	cfg := Profile(prop, rng, idx)
	opts := Opts{}
	if prop == "C05" {
		opts.EncodeAll = rng.Bool(0.3)
	}
	r := NewRun(prop, cfg.NP, cfg.NS, cfg.NE, opts, st)
	r.Known = env.Known
	r.PkgSnap = env.PkgSnap
	res := &RunResult{Idx: idx, Seed: seed}
	if env.Transcript {
		r.Transcript = &res.Transcript
	}
	g := NewGen(rng, r, cfg)
	for {
		c, ok := g.Next()
		if !ok {
			break
		}
		if v := r.Step(c); v != nil {
			res.Violation = v
			break
		}
		if r.Foreign != nil {
			break
		}
	}
	finishResult(r, res, base, env)
	return res
}

func finishResult(r *Run, res *RunResult, base uint64, env *Env) {
	res.Steps = len(r.Calls)
	res.Evals = r.Evals
	res.ValueHash, res.RawHash = r.ValueHash(), r.RawHash()
	res.Foreign = r.Foreign
	res.Known = r.KnownHits
	r.Stats.Inc("runs")
	r.Stats.Add("steps", int64(len(r.Calls)))
	if r.Foreign != nil {
		r.Stats.Inc("runs_ended_by_foreign_violation/" + r.Foreign.Prop)
	}
	if res.Violation != nil || env.KeepTrace {
		res.Trace = &Trace{Kind: "hist", Prop: r.Prop, Seed: base, RunIdx: res.Idx, NP: len(r.W.P), NS: len(r.W.S), NE: len(r.W.E),
			Opts: r.Opts, Calls: r.Calls, Violation: res.Violation, Build: env.Build, Procs: runtime.GOMAXPROCS(0)}
	}
}

// Replay executes a trace literally.
func Replay(t *Trace, st *Stats, env *Env) *RunResult {
	for _, pt := range t.Prelude {
		pr := NewRun(pt.Prop, pt.NP, pt.NS, pt.NE, pt.Opts, NewStats())
		pr.Known = env.Known
		pr.PkgSnap = env.PkgSnap
		for _, c := range pt.Calls {
			if v := pr.Step(c); v != nil || pr.Foreign != nil {
				break
			}
		}
	}
	r := NewRun(t.Prop, t.NP, t.NS, t.NE, t.Opts, st)
	r.Known = env.Known
	r.PkgSnap = env.PkgSnap
	res := &RunResult{Idx: t.RunIdx, Seed: t.Seed}
	if env.Transcript {
		r.Transcript = &res.Transcript
	}
	for _, c := range t.Calls {
		if v := r.Step(c); v != nil {
			res.Violation = v
			break
		}
		if r.Foreign != nil {
			break
		}
	}
	finishResult(r, res, t.Seed, env)
	return res
}
