package hist

import (
	"bytes"
	"fmt"
	"math/big"
	"runtime"
	"strings"

	"filippo.io/edwards25519"
	"filippo.io/edwards25519/field"

	"verifsim/alpha"
	"verifsim/prng"
	"verifsim/ref"
)

func (r *Run) execPseudo(op *OpDesc, c *Call) []*Violation {
	r.Stats.Inc("op/" + op.Name)
	switch op.Name {
	case "H.ZeroPoint":
		if c.R < 0 || c.R >= len(r.W.P) {
			return nil
		}
		setPointRaw(r.W.P[c.R], alpha.PointRaw{})
		r.hv.Write([]byte(fmt.Sprintf("%d %s\n", r.StepNo, c.String())))
		r.hr.Write([]byte(fmt.Sprintf("%d %s\n", r.StepNo, c.String())))
		if r.Transcript != nil {
			*r.Transcript = append(*r.Transcript, fmt.Sprintf("%d %s", r.StepNo, c.String()))
		}
		return nil
	case "H.GC":
		// the simulator keeps the collector off; this is the seeded, replayable
		// version of "a collection happened here": everything parked in a
		// sync.Pool is dropped (two cycles: primary, then victim cache)
		runtime.GC()
		runtime.GC()
		r.Stats.Inc("fault/gc/pool-eviction")
		return nil
	case "H.Flood":
		return r.flood(c)
	case "H.Scribble":
		return r.scribble(c)
	case "H.Probe":
		return r.probe(c)
	}
	return nil
}

// anchors: the constructors must keep returning the identity, the base point
// and zero, whatever happened before (observed through alpha, not Bytes).
func (r *Run) anchors(when string) (vs []*Violation) {
	defer func() {
		if x := recover(); x != nil {
			vs = append(vs, r.viol("C19", "constructor-anchor", "panic", fmt.Sprintf("a constructor panicked %s: %v", when, x)))
		}
	}()
	r.Stats.Inc("oracle/C19/anchors")
	r.ev("C19")
	id := edwards25519.NewIdentityPoint()
	if pv, why := pointValid(alpha.PointLimbs(id)); why != "" {
		vs = append(vs, r.viol("C19", "constructor-anchor", "NewIdentityPoint", "NewIdentityPoint returns an invalid point "+when))
	} else if x, y := pv.Affine(); x.Sign() != 0 || y.Cmp(big.NewInt(1)) != 0 {
		vs = append(vs, r.viol("C19", "constructor-anchor", "NewIdentityPoint", "NewIdentityPoint no longer returns the identity "+when))
	}
	g := edwards25519.NewGeneratorPoint()
	if pv, why := pointValid(alpha.PointLimbs(g)); why != "" {
		vs = append(vs, r.viol("C19", "constructor-anchor", "NewGeneratorPoint", "NewGeneratorPoint returns an invalid point "+when))
	} else if x, y := pv.Affine(); !(ref.Aff{X: x, Y: y}).Equal(ref.Base()) {
		vs = append(vs, r.viol("C19", "constructor-anchor", "NewGeneratorPoint", "NewGeneratorPoint no longer returns the base point "+when))
	}
	s := edwards25519.NewScalar()
	if alpha.ScalarVal(alpha.ScalarLimbs(s)).Sign() != 0 {
		vs = append(vs, r.viol("C19", "constructor-anchor", "NewScalar", "NewScalar no longer returns zero "+when))
	}
	// The harness is a caller like any other: what a constructor handed to it is
	// its own, and it overwrites it after use (with another valid value, written
	// straight into memory). A constructor that handed out package state - on
	// its first call in the process only, say - fails its next anchor.
	if len(vs) == 0 {
		junk := alpha.PointLimbs(g)
		junk.X, junk.T = negLimbs(junk.X), negLimbs(junk.T) // -B, a valid point
		setPointRaw(id, junk)
		setPointRaw(g, alpha.PointRaw{X: alpha.Limbs{}, Y: alpha.Limbs{1}, Z: alpha.Limbs{1}, T: alpha.Limbs{}})
		setScalarRaw(s, alpha.MontgomeryOf(big.NewInt(12345)))
		r.Stats.Inc("fault/scribble/anchor-values")
	}
	return vs
}

// negLimbs returns limbs of -v mod p, each limb below 2^51.
func negLimbs(l alpha.Limbs) alpha.Limbs {
	v := alpha.ElemVal(l)
	v.Neg(v).Mod(v, alpha.P)
	return alpha.LimbsOf(v)
}

func (r *Run) scribble(c *Call) []*Violation {
	if c.L < 0 || c.L >= len(r.Ledger) {
		r.Stats.Inc("skipped_steps")
		return nil
	}
	l := r.Ledger[c.L]
	// The public mutators used below are first run on throw-away values, so that
	// any legitimate lazy initialisation they may trigger happens before the
	// package-state snapshot is taken.
	func() {
		defer func() { recover() }()
		e := new(field.Element).One()
		e.Add(e, e)
		e.Negate(e)
		p := edwards25519.NewGeneratorPoint()
		p.Add(p, p)
		p.Negate(p)
		p.MultByCofactor(p)
		s := edwards25519.NewScalar()
		s.Add(s, s)
		s.Subtract(s, s)
		s.MultiplyAdd(s, s, s)
		s.SetCanonicalBytes(make([]byte, 32))
	}()
	pre := r.W.Snapshot()
	var pkgPre []byte
	if r.PkgSnap != nil {
		pkgPre = r.PkgSnap()
	}
	var others [][]byte
	for i, o := range r.Ledger {
		if i == c.L {
			others = append(others, nil)
			continue
		}
		others = append(others, o.raw())
	}
	mode := c.Mode % 4
	pat := prng.New(c.Mode)
	kind := "scribble/" + l.Kind
	func() {
		defer func() {
			if x := recover(); x != nil {
				r.Stats.Inc("scribble_mutator_panicked")
			}
		}()
		switch l.Kind {
		case "bytes":
			kind = "scribble/bytes"
			switch mode {
			case 0:
				for i := range l.B {
					l.B[i] = 0xff
				}
			case 1:
				for i := range l.B {
					l.B[i] = 0
				}
			case 2:
				if len(l.B) > 0 {
					k := int((c.Mode >> 8) % uint64(8*len(l.B)))
					l.B[k/8] ^= 1 << (k % 8)
				}
			default:
				x := pat.Bytes(len(l.B))
				for i := range l.B {
					l.B[i] ^= x[i] | 1
				}
			}
		case "elem":
			kind = "scribble/coords"
			switch mode {
			case 0:
				setElemRaw(l.E, alpha.Limbs{^uint64(0), ^uint64(0), ^uint64(0), ^uint64(0), ^uint64(0)})
			case 1:
				l.E.One()
			case 2:
				l.E.Add(l.E, l.E)
			default:
				l.E.Negate(new(field.Element).Add(l.E, new(field.Element).One()))
			}
		case "point":
			kind = "scribble/ctor"
			switch mode {
			case 0:
				var raw alpha.PointRaw
				for i := range raw.X {
					raw.X[i], raw.Y[i], raw.Z[i], raw.T[i] = pat.Uint64()>>13, pat.Uint64()>>13, pat.Uint64()>>13, pat.Uint64()>>13
				}
				setPointRaw(l.P, raw)
			case 1:
				l.P.Add(l.P, l.P)
			case 2:
				l.P.Negate(l.P)
			default:
				l.P.Add(l.P, l.P)
				l.P.MultByCofactor(l.P)
			}
		case "scalar":
			kind = "scribble/ctor"
			// (built in memory: a library call of the harness's own inside the
			// snapshot window would be blamed for any statistics it updates)
			one := ScalarFromInt(big.NewInt(1))
			switch mode {
			case 0:
				setScalarRaw(l.S, alpha.ScalarRaw{pat.Uint64(), pat.Uint64(), pat.Uint64(), pat.Uint64() >> 4})
			case 1:
				l.S.Add(l.S, one)
			case 2:
				l.S.Subtract(l.S, one)
			default:
				l.S.MultiplyAdd(one, one, one)
			}
		}
	}()
	r.Stats.Inc("fault/" + kind)
	var vs []*Violation
	post := r.W.Snapshot()
	for i := range post.P {
		if post.P[i] != pre.P[i] {
			vs = append(vs, r.viol("C19", "mutating-returned-value-changed-caller-slot", l.Kind,
				fmt.Sprintf("mutating the value returned by %s (step %d) changed P%d", l.Origin, l.Step, i)))
			break
		}
	}
	for i := range post.S {
		if post.S[i] != pre.S[i] {
			vs = append(vs, r.viol("C19", "mutating-returned-value-changed-caller-slot", l.Kind,
				fmt.Sprintf("mutating the value returned by %s (step %d) changed S%d", l.Origin, l.Step, i)))
			break
		}
	}
	for i := range post.E {
		if post.E[i] != pre.E[i] {
			vs = append(vs, r.viol("C19", "mutating-returned-value-changed-caller-slot", l.Kind,
				fmt.Sprintf("mutating the value returned by %s (step %d) changed E%d", l.Origin, l.Step, i)))
			break
		}
	}
	for i, o := range r.Ledger {
		if i == c.L {
			continue
		}
		if !bytes.Equal(o.raw(), others[i]) {
			vs = append(vs, r.viol("C19", "mutating-returned-value-changed-another-returned-value", l.Kind+"/"+o.Kind,
				fmt.Sprintf("mutating the value returned by %s (step %d) changed the value returned by %s (step %d)", l.Origin, l.Step, o.Origin, o.Step)))
			break
		}
	}
	// Package state is compared only across mutations that execute no library
	// code (raw memory writes): a public mutator may legitimately update internal
	// caches keyed by the value it is given, a raw write cannot.
	rawMutation := l.Kind == "bytes" || mode == 0
	if r.PkgSnap != nil && rawMutation {
		r.Stats.Inc("oracle/C19/pkgstate")
		if !bytes.Equal(r.PkgSnap(), pkgPre) {
			vs = append(vs, r.viol("C19", "mutating-returned-value-changed-package-state", l.Kind,
				fmt.Sprintf("mutating the value returned by %s (step %d) changed a package-level variable of the library", l.Origin, l.Step)))
		}
	}
	vs = append(vs, r.anchors("after mutating a value returned by "+l.Origin)...)
	line := fmt.Sprintf("%d %s\n", r.StepNo, c.String())
	r.hv.Write([]byte(line))
	r.hr.Write([]byte(line))
	return r.finish(vs, pre)
}

// probe re-issues a recorded call on private bit-copies of its recorded
// operands (same aliasing structure) and compares the outputs as values.
func (r *Run) probe(c *Call) []*Violation {
	if c.L < 0 || c.L >= len(r.Records) {
		r.Stats.Inc("skipped_steps")
		return nil
	}
	rec := r.Records[c.L]
	op := opIndex[rec.Call.Op]
	cc := &rec.Call
	o := &Operands{U: cc.U, C: cc.C}
	pm := map[int]*edwards25519.Point{}
	sm := map[int]*edwards25519.Scalar{}
	em := map[int]*field.Element{}
	getP := func(i int) *edwards25519.Point {
		if pm[i] == nil {
			pm[i] = newPointRaw(rec.P[i])
		}
		return pm[i]
	}
	getS := func(i int) *edwards25519.Scalar {
		if sm[i] == nil {
			sm[i] = newScalarRaw(rec.S[i])
		}
		return sm[i]
	}
	getE := func(i int) *field.Element {
		if em[i] == nil {
			em[i] = newElemRaw(rec.E[i])
		}
		return em[i]
	}
	switch op.Recv {
	case KPoint:
		o.RP = getP(cc.R)
	case KScalar:
		o.RS = getS(cc.R)
	case KElem:
		o.RE = getE(cc.R)
	}
	for _, i := range cc.P {
		o.AP = append(o.AP, getP(i))
	}
	for _, i := range cc.S {
		o.AS = append(o.AS, getS(i))
	}
	if !op.OutElems {
		for _, i := range cc.E {
			o.AE = append(o.AE, getE(i))
		}
	}
	if rec.B != nil || cc.BNil {
		if !cc.BNil {
			o.B = append([]byte{}, rec.B...)
		}
	} else if op.Bytes {
		o.B = []byte{}
	}
	o.Backing = o.B
	// A destination is not an argument: when the receiver is written only (and
	// shares storage with no input), half of the probes start it from another
	// state than the recorded one - the zero value or an unrelated valid value.
	// Only for calls that succeeded: a failed setter leaves its receiver as it was.
	varied := ""
	if c.Mode&1 == 1 && op.Writes && !op.RecvInput && !op.Ctor && !op.SwapArg && !op.Dynamic &&
		strings.HasPrefix(rec.OutDig, "panic=false ") && !strings.Contains(rec.OutDig, "err:") {
		in := func(xs []int) bool {
			for _, x := range xs {
				if x == cc.R {
					return true
				}
			}
			return false
		}
		alt := c.Mode&2 == 2
		switch op.Recv {
		case KPoint:
			if !in(cc.P) {
				if alt {
					b := ref.Base()
					setPointRaw(o.RP, alpha.PointLimbs(PointFromProjective(b.X, b.Y, big.NewInt(int64(3+c.Mode>>8&0xffff)))))
					varied = "another valid point"
				} else {
					setPointRaw(o.RP, alpha.PointRaw{})
					varied = "the zero value"
				}
			}
		case KScalar:
			if !in(cc.S) {
				if alt {
					setScalarRaw(o.RS, alpha.ScalarLimbs(ScalarFromInt(new(big.Int).Lsh(big.NewInt(int64(12345+c.Mode>>8&0xffff)), 200))))
					varied = "another scalar"
				} else {
					setScalarRaw(o.RS, alpha.ScalarRaw{})
					varied = "the zero value"
				}
			}
		case KElem:
			if !in(cc.E) || op.OutElems {
				if alt {
					setElemRaw(o.RE, alpha.ElemLimbs(ElemFromInt(new(big.Int).Lsh(big.NewInt(int64(12345+c.Mode>>8&0xffff)), 230), true)))
					varied = "another element"
				} else {
					setElemRaw(o.RE, alpha.Limbs{})
					varied = "the zero value"
				}
			}
		}
		if varied != "" {
			r.Stats.Inc("oracle/C19/probe/receiver_varied")
		}
	}
	if c.Mode&4 == 4 && op.Bytes && len(o.B) > 0 && !op.Dynamic {
		// flush: half of the probes of byte-taking operations first issue the same
		// operation on an unrelated input of the same length (fresh receiver, fresh
		// buffer). A small memo that answered the recorded call from a stale entry
		// must now compute - and a pure function computes the recorded result again.
		fl := &Operands{U: cc.U, C: cc.C}
		switch op.Recv {
		case KPoint:
			fl.RP = new(edwards25519.Point)
		case KScalar:
			fl.RS = new(edwards25519.Scalar)
		case KElem:
			fl.RE = new(field.Element)
		}
		fb := make([]byte, len(o.B))
		pat := prng.New(c.Mode>>3 | 1)
		for i := range fb {
			fb[i] = byte(pat.Uint64())
		}
		fb[len(fb)-1] &= 0x0f // below l / below 2^252: accepted by the canonical setters too
		fl.B, fl.Backing = fb, fb
		op.run(fl)
		r.Stats.Inc("oracle/C19/probe/flushed")
	}
	out := op.run(o)
	if op.Ctor && out.Ret != nil {
		// mirror what the harness did at record time: copy into the receiver
		if op.Recv == KPoint {
			setPointRaw(o.RP, alpha.PointLimbs((*edwards25519.Point)(out.Ret)))
		} else {
			setScalarRaw(o.RS, alpha.ScalarLimbs((*edwards25519.Scalar)(out.Ret)))
		}
	}
	dig := r.outcomeDigest(op, cc, &out, func(k Kind, i int) string {
		switch k {
		case KPoint:
			return valueDigestPoint(alpha.PointLimbs(getP(i)))
		case KScalar:
			return valueDigestScalar(alpha.ScalarLimbs(getS(i)))
		default:
			return valueDigestElem(alpha.ElemLimbs(getE(i)))
		}
	})
	r.Stats.Inc("oracle/C19/probe")
	r.Stats.Add("probe/C19/probe_distance_steps", int64(r.StepNo-rec.Step))
	var vs []*Violation
	if dig != rec.OutDig {
		how := "on bit-copies of the operands"
		key := op.Name
		if varied != "" {
			how = "on bit-copies of the arguments, with the write-only receiver started from " + varied + ","
			key += "/receiver-dependent"
		}
		vs = append(vs, r.viol("C19", "not-a-pure-function", key,
			fmt.Sprintf("%s re-issued at step %d %s of step %d gave a different result:\n  first: %s\n  now:   %s", op.Name, r.StepNo, how, rec.Step, rec.OutDig, dig)))
	}
	vs = append(vs, r.anchors("at a probe step")...)
	line := fmt.Sprintf("%d %s\n", r.StepNo, c.String())
	r.hv.Write([]byte(line))
	r.hr.Write([]byte(line))
	return vs
}
