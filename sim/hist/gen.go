package hist

import (
	"fmt"
	"math/big"
	"strings"

	"verifsim/alpha"
	"verifsim/prng"
	"verifsim/ref"
)

// GenCfg is the per-run (swarm) configuration drawn from the run's seed.
type GenCfg struct {
	NP, NS, NE int
	Steps      int
	W          map[string]int // operation weights (0 = switched off)
	AliasP     float64        // probability that an operand reuses an already chosen slot
	PZeroRecv  float64        // probability of zeroing a point slot before using it as receiver
	PMisuse    float64
	PRejectLen float64
	PRejectSem float64
	PScribble  float64
	// PBigList: probability that a "more than four terms" multi-scalar call gets a threshold-sized list
	PBigList float64
	// PGC: probability per step of a forced garbage collection (twice: empties sync.Pool and its victim cache)
	PGC float64
	// PFlood: probability per step of a long run of distinct inputs to one operation (H.Flood)
	PFlood      float64
	Deep        bool
	PProbe      float64
	PRelatives  float64 // probability of the related-operands macro
	PImport     float64 // probability of the export/scale/import macro
	ScalarFlav  []int   // weights of scalar flavours
	Enum        string  // "", "alias", "misuse", "reject": enumeration appended after the random prefix
	EnumDraws   int
	MaxLimbBias bool // C09: bias towards carry-free chains
	BigPool     bool // many slots: long term lists with (nearly) all-distinct operands
	ColdFirst   bool // the run starts a worker process: vary the first Point operation
}

// Gen produces the calls of a run from the PRNG and the current world.
type Gen struct {
	rng       *prng.Rand
	r         *Run
	cfg       *GenCfg
	queue     []Call
	emitted   int
	setupDone bool
	enumDone  bool
	ops       []*OpDesc
	wts       []int
	// relativesMacro state
	havePending bool
	pendingPair [2]int
	pendingOp   string
	pendingBL   int
}

// ---- constants computed with the reference model ----

var (
	torsionEnc     [][32]byte // encodings of the eight small-order points
	nonCanon       [][32]byte // accepted non-canonical encodings
	baseTorsionEnc [][32]byte // B + T for the eight small-order points T (mixed-order relatives of the base point)
)

func init() {
	// find a point of order 8: [l]Q for the first decodable y
	for yv := int64(2); ; yv++ {
		y := big.NewInt(yv)
		x, ok := ref.RecoverX(y, 0)
		if !ok {
			continue
		}
		t := ref.ScalarMul(alpha.L, ref.Aff{X: x, Y: y})
		// order 8 iff [4]t != identity
		t4 := ref.ScalarMul(big.NewInt(4), t)
		if t4.Equal(ref.Identity()) {
			continue
		}
		acc := ref.Identity()
		for i := 0; i < 8; i++ {
			torsionEnc = append(torsionEnc, alpha.Encode(acc.X, acc.Y))
			bt := ref.AddAffine(ref.Base(), acc)
			baseTorsionEnc = append(baseTorsionEnc, alpha.Encode(bt.X, bt.Y))
			acc = ref.AddAffine(acc, t)
		}
		break
	}
	// y in [p, 2^255): y' = y + p for y in 0..18 when (x, y) is on the curve
	for yv := int64(0); yv < 19; yv++ {
		y := big.NewInt(yv)
		x, ok := ref.RecoverX(y, 0)
		if !ok {
			continue
		}
		yy := new(big.Int).Add(y, alpha.P)
		for sign := 0; sign < 2; sign++ {
			e := alpha.LE32(yy)
			if sign == 1 {
				if x.Sign() == 0 {
					// sign bit with x = 0: accepted as documented
				}
				e[31] |= 0x80
			}
			nonCanon = append(nonCanon, e)
		}
	}
	// canonical y with sign bit set although x = 0: y = 1 and y = p-1
	e := alpha.LE32(big.NewInt(1))
	e[31] |= 0x80
	nonCanon = append(nonCanon, e)
	e = alpha.LE32(new(big.Int).Sub(alpha.P, big.NewInt(1)))
	e[31] |= 0x80
	nonCanon = append(nonCanon, e)
}

func NewGen(rng *prng.Rand, r *Run, cfg *GenCfg) *Gen {
	g := &Gen{rng: rng, r: r, cfg: cfg}
	for _, o := range Alphabet {
		if w := cfg.W[o.Name]; w > 0 {
			g.ops = append(g.ops, o)
			g.wts = append(g.wts, w)
		}
	}
	return g
}

// Next returns the next call of the run; ok = false when the run is over.
func (g *Gen) Next() (Call, bool) {
	for {
		if len(g.queue) > 0 {
			c := g.queue[0]
			g.queue = g.queue[1:]
			return c, true
		}
		if g.havePending {
			g.flushPending()
			continue
		}
		if !g.setupDone {
			g.setupDone = true
			g.setup()
			continue
		}
		if g.emitted >= g.cfg.Steps {
			if g.cfg.Enum != "" && !g.enumDone {
				g.enumDone = true
				g.enumerate()
				continue
			}
			return Call{}, false
		}
		g.emitted++
		g.randomStep()
	}
}

func (g *Gen) push(c ...Call) { g.queue = append(g.queue, c...) }

// ---- literal generators ----

func (g *Gen) scalarBytes() (op string, b []byte) {
	rng := g.rng
	flav := rng.Weighted(g.cfg.ScalarFlav)
	canon := func(v *big.Int) []byte {
		v.Mod(v, alpha.L)
		e := alpha.LE32(v)
		return e[:]
	}
	switch flav {
	case 0: // uniform below l
		return "Scalar.SetCanonicalBytes", canon(alpha.FromLE(rng.Bytes(40)))
	case 1: // small
		return "Scalar.SetCanonicalBytes", canon(big.NewInt(int64(rng.Intn(20))))
	case 2: // l-1-small
		v := new(big.Int).Sub(alpha.L, big.NewInt(int64(1+rng.Intn(20))))
		return "Scalar.SetCanonicalBytes", canon(v)
	case 3: // sparse
		v := new(big.Int)
		for i := 0; i < 1+rng.Intn(4); i++ {
			v.SetBit(v, rng.Intn(252), 1)
		}
		return "Scalar.SetCanonicalBytes", canon(v)
	case 4: // nibble patterns: all radix-16 digits equal (8s force the recentering carries)
		pats := []byte{0x88, 0x77, 0xff, 0x8f, 0xf8, 0x78, 0x87, 0x80, 0x08, 0x0f, 0xf0, 0x11, 0xee}
		p := pats[rng.Intn(len(pats))]
		b := make([]byte, 32)
		for i := range b {
			b[i] = p
		}
		b[31] = p & 0x0f
		if rng.Bool(0.3) {
			b[rng.Intn(31)] = byte(rng.Intn(256))
		}
		return "Scalar.SetCanonicalBytes", canon(alpha.FromLE(b))
	case 5: // clamped
		return "Scalar.SetBytesWithClamping", rng.Bytes(32)
	case 8: // recoding-targeted: a chosen odd digit d of the width-8 NAF at a chosen position p
		pos := uint(rng.Intn(246))
		d := int64(2*rng.Intn(128) - 127) // odd, -127..127
		m := alpha.FromLE(rng.Bytes(32))
		v := new(big.Int).Lsh(m, 8)
		v.Add(v, big.NewInt(d))
		if v.Sign() < 0 {
			v.Add(v, big.NewInt(256))
		}
		v.Lsh(v, pos)
		// keep it below l by dropping high bits (the low part, which fixes the digit, stays)
		v.Mod(v, new(big.Int).Lsh(big.NewInt(1), 252))
		return "Scalar.SetCanonicalBytes", canon(v)
	case 6: // wide
		b := rng.Bytes(64)
		if rng.Bool(0.2) {
			for i := range b {
				b[i] = 0xff
			}
		}
		return "Scalar.SetUniformBytes", b
	default: // powers of two and neighbours (NAF window edges)
		v := new(big.Int).Lsh(big.NewInt(1), uint(rng.Intn(253))) // up to 2^252 (< l)
		v.Add(v, big.NewInt(int64(rng.Intn(3)-1)))
		if rng.Bool(0.2) {
			// 2^252 + something below l - 2^252: bit 252 set together with low bits
			v.Lsh(big.NewInt(1), 252)
			v.Add(v, alpha.FromLE(rng.Bytes(1+rng.Intn(15))))
		}
		if v.Sign() < 0 {
			v.SetInt64(0)
		}
		return "Scalar.SetCanonicalBytes", canon(v)
	}
}

func (g *Gen) validPointEnc() []byte {
	rng := g.rng
	switch k := rng.Intn(10); {
	case k < 2:
		if rng.Bool(0.3) {
			e := baseTorsionEnc[rng.Intn(8)]
			return e[:]
		}
		e := torsionEnc[rng.Intn(8)]
		return e[:]
	case k < 3:
		e := nonCanon[rng.Intn(len(nonCanon))]
		return e[:]
	case k < 5:
		// a point with a structured x coordinate (small, a power of two plus or
		// minus a little, or p minus such a value): y^2 = (1 + x^2)/(1 - d x^2)
		for {
			x := g.structuredInt()
			xx := new(big.Int).Mul(x, x)
			xx.Mod(xx, alpha.P)
			num := new(big.Int).Add(big.NewInt(1), xx)
			den := new(big.Int).Mul(alpha.D, xx)
			den.Sub(big.NewInt(1), den).Mod(den, alpha.P)
			di := new(big.Int).ModInverse(den, alpha.P)
			if di == nil {
				continue
			}
			y2 := num.Mul(num, di)
			y2.Mod(y2, alpha.P)
			y := new(big.Int).ModSqrt(y2, alpha.P)
			if y == nil {
				continue
			}
			if rng.Bool(0.5) {
				y.Sub(alpha.P, y).Mod(y, alpha.P)
			}
			e := alpha.Encode(x, y)
			return e[:]
		}
	default:
		for {
			b := rng.Bytes(32)
			sign := uint(b[31] >> 7)
			b[31] &= 0x7f
			y := alpha.FromLE(b)
			y.Mod(y, alpha.P)
			x, ok := ref.RecoverX(y, sign)
			if !ok {
				continue
			}
			e := alpha.Encode(x, y)
			return e[:]
		}
	}
}

// structuredInt returns a field value with structure: small, near a power of
// two, with few non-zero 51-bit limbs, or p minus such a value.
func (g *Gen) structuredInt() *big.Int {
	rng := g.rng
	v := new(big.Int)
	switch rng.Intn(4) {
	case 0:
		v.SetInt64(int64(rng.Intn(1 << 20)))
	case 1:
		v.Lsh(big.NewInt(1), uint(rng.Intn(255)))
		v.Add(v, big.NewInt(int64(rng.Intn(64)-32)))
	case 2:
		v = alpha.FromLE(rng.Bytes(1 + rng.Intn(20)))
	default:
		v = g.limbStructured()
	}
	v.Mod(v, alpha.P)
	if rng.Bool(0.4) {
		v.Sub(alpha.P, v).Mod(v, alpha.P)
	}
	return v
}

// limbStructured draws each 51-bit limb independently from {0, 1, all ones,
// small, random}.
func (g *Gen) limbStructured() *big.Int {
	rng := g.rng
	v := new(big.Int)
	for i := 4; i >= 0; i-- {
		var l uint64
		switch rng.Intn(10) {
		case 0, 1, 2, 3:
			l = 0
		case 4, 5:
			l = 1
		case 6:
			l = 1<<51 - 1
		case 7:
			l = uint64(rng.Intn(1 << 16))
		default:
			l = rng.Uint64() >> 13
		}
		v.Lsh(v, 51)
		v.Add(v, new(big.Int).SetUint64(l))
	}
	return v
}

func (g *Gen) offCurveEnc() []byte {
	if g.rng.Bool(0.2) {
		// y in [p, 2^255) that is NOT the y of a curve point, either sign
		for {
			yv := int64(g.rng.Intn(19))
			if _, ok := ref.RecoverX(big.NewInt(yv), 0); ok {
				continue
			}
			e := alpha.LE32(new(big.Int).Add(big.NewInt(yv), alpha.P))
			if g.rng.Bool(0.5) {
				e[31] |= 0x80
			}
			return e[:]
		}
	}
	for {
		b := g.rng.Bytes(32)
		yb := append([]byte{}, b...)
		yb[31] &= 0x7f
		y := alpha.FromLE(yb)
		y.Mod(y, alpha.P)
		if _, ok := ref.RecoverX(y, 0); !ok {
			return b
		}
	}
}

func (g *Gen) wrongLen(n int) (b []byte, isNil bool) {
	rng := g.rng
	lens := []int{0, 1, n - 1, n + 1, 2 * n, n / 2, 31, 33, 63, 65, 200, 16, 32, 64, 128}
	k := rng.Intn(len(lens) + 1)
	if k == len(lens) {
		return nil, true
	}
	l := lens[k]
	if l == n {
		l = n + 2
	}
	return rng.Bytes(l), false
}

func (g *Gen) elemBytes() (string, []byte) {
	rng := g.rng
	switch k := rng.Intn(10); {
	case k < 2: // the 19 non-canonical values p..2^255-1, with or without bit 255
		v := new(big.Int).Add(alpha.P, big.NewInt(int64(rng.Intn(19))))
		e := alpha.LE32(v)
		if rng.Bool(0.5) {
			e[31] |= 0x80
		}
		return "Element.SetBytes", e[:]
	case k < 3:
		b := make([]byte, 32)
		for i := range b {
			b[i] = 0xff
		}
		return "Element.SetBytes", b
	case k < 4:
		b := make([]byte, 32)
		b[0] = byte(rng.Intn(3))
		return "Element.SetBytes", b
	case k < 5:
		e := alpha.LE32(g.limbStructured())
		return "Element.SetBytes", e[:]
	case k < 7:
		b := rng.Bytes(64)
		if rng.Bool(0.3) {
			for i := range b {
				b[i] = 0xff
			}
		}
		return "Element.SetWideBytes", b
	default:
		return "Element.SetBytes", rng.Bytes(32)
	}
}

// ---- slot pickers ----

func (g *Gen) initPoints() []int {
	var out []int
	for i, p := range g.r.W.P {
		if !alpha.PointLimbs(p).GuardedZero() {
			out = append(out, i)
		}
	}
	return out
}

func (g *Gen) zeroPoints() []int {
	var out []int
	for i, p := range g.r.W.P {
		if alpha.PointLimbs(p).GuardedZero() {
			out = append(out, i)
		}
	}
	return out
}

// pick chooses a slot from pool; with probability AliasP it reuses one of prev.
func (g *Gen) pick(pool []int, prev []int) int {
	if len(prev) > 0 && g.rng.Bool(g.cfg.AliasP) {
		cand := prev[g.rng.Intn(len(prev))]
		for _, x := range pool {
			if x == cand {
				return cand
			}
		}
	}
	return pool[g.rng.Intn(len(pool))]
}

func seq(n int) []int {
	s := make([]int, n)
	for i := range s {
		s[i] = i
	}
	return s
}

// buildCall draws operands for op. ok = false if the world cannot supply them.
func (g *Gen) buildCall(op *OpDesc) (Call, bool) {
	rng := g.rng
	c := Call{Op: op.Name}
	w := g.r.W
	ip := g.initPoints()
	var usedP, usedS, usedE []int
	if op.Multi {
		nw := []int{3, 4, 4, 3, 2, 2}
		var n int
		switch rng.Weighted(nw) {
		case 0:
			n = 0
		case 1:
			n = 1
		case 2:
			n = 2
		case 3:
			n = 3
		case 4:
			n = 4
		default:
			n = 5 + rng.Intn(8)
			if rng.Bool(0.25) {
				n = 13 + rng.Intn(21) // long term lists: 13..33
			}
			if rng.Bool(g.cfg.PBigList) {
				n = thresholdSize(rng, 300) // batch-size thresholds of bulk verifiers
			}
			if rng.Bool(g.cfg.PBigList * 0.15) {
				n = thresholdSize(rng, 1100)
			}
		}
		if n > 0 && (len(ip) == 0 || len(w.S) == 0) {
			return c, false
		}
		c.P, c.S = []int{}, []int{}
		var permP, permS []int
		if g.cfg.BigPool && rng.Bool(0.6) {
			// all-distinct operands as far as the pool goes
			permP, permS = permOf(rng, len(ip)), permOf(rng, len(w.S))
		}
		for i := 0; i < n; i++ {
			if permP != nil {
				c.P = append(c.P, ip[permP[i%len(permP)]])
				c.S = append(c.S, permS[i%len(permS)])
				continue
			}
			p := g.pick(ip, usedP)
			usedP = append(usedP, p)
			c.P = append(c.P, p)
			s := g.pick(seq(len(w.S)), usedS)
			usedS = append(usedS, s)
			c.S = append(c.S, s)
		}
	} else {
		for i := 0; i < op.NP; i++ {
			if len(ip) == 0 {
				return c, false
			}
			p := g.pick(ip, usedP)
			usedP = append(usedP, p)
			c.P = append(c.P, p)
		}
		for i := 0; i < op.NS; i++ {
			if len(w.S) == 0 {
				return c, false
			}
			s := g.pick(seq(len(w.S)), usedS)
			usedS = append(usedS, s)
			c.S = append(c.S, s)
		}
		if !op.OutElems {
			for i := 0; i < op.NE; i++ {
				if len(w.E) == 0 {
					return c, false
				}
				e := g.pick(seq(len(w.E)), usedE)
				usedE = append(usedE, e)
				c.E = append(c.E, e)
			}
		}
	}
	switch op.Recv {
	case KPoint:
		if len(w.P) == 0 {
			return c, false
		}
		if op.RecvInput {
			if len(ip) == 0 {
				return c, false
			}
			c.R = g.pick(ip, usedP)
		} else {
			c.R = g.pick(seq(len(w.P)), usedP)
		}
	case KScalar:
		if len(w.S) == 0 {
			return c, false
		}
		c.R = g.pick(seq(len(w.S)), usedS)
	case KElem:
		if len(w.E) == 0 {
			return c, false
		}
		c.R = g.pick(seq(len(w.E)), usedE)
	}
	if op.OutElems {
		if len(w.E) >= 4 && rng.Bool(0.5) {
			perm := permOf(rng, len(w.E))
			c.E = perm[:4]
		}
	}
	if op.U32 {
		switch rng.Intn(6) {
		case 0:
			c.U = 0
		case 1:
			c.U = 1
		case 2:
			c.U = 1 << uint(rng.Intn(32))
		case 3, 4:
			c.U = 0xffffffff
		default:
			c.U = uint32(rng.Uint64())
		}
	}
	if op.Cond {
		c.C = rng.Intn(2)
		if op.Dynamic && (g.r.Prop == "C20" || g.r.Prop == "C19") && rng.Bool(0.5) {
			// the int parameter of an API addition need not be a condition: counts,
			// exponents and indices have thresholds (small values, round numbers +-1).
			// Only under oracles that hold whatever the method means (same result in
			// both builds, same result when re-issued): a condition parameter given 64
			// may legitimately produce garbage, but the same garbage every time.
			if rng.Bool(0.3) {
				c.C = rng.Intn(10)
			} else {
				c.C = thresholdSize(rng, 300)
			}
		}
	}
	if op.Bytes {
		c.HasB = true
		switch op.Name {
		case "Point.SetBytes":
			switch {
			case rng.Bool(g.cfg.PRejectLen):
				b, isNil := g.wrongLen(32)
				c.B, c.BNil, c.Fault = b, isNil, "reject/len"
			case rng.Bool(g.cfg.PRejectSem):
				c.B, c.Fault = g.offCurveEnc(), "reject/sem"
			default:
				// sometimes feed back the very slice an earlier Bytes() returned
				if k := g.ledgerBytes(32); k >= 0 && rng.Bool(0.15) {
					c.BL = k + 1
					c.HasB = false
				} else {
					c.B = g.validPointEnc()
				}
			}
		case "Scalar.SetCanonicalBytes", "Scalar.SetUniformBytes", "Scalar.SetBytesWithClamping":
			n := 32
			if op.Name == "Scalar.SetUniformBytes" {
				n = 64
			}
			switch {
			case rng.Bool(g.cfg.PRejectLen):
				b, isNil := g.wrongLen(n)
				c.B, c.BNil, c.Fault = b, isNil, "reject/len"
			case op.Name == "Scalar.SetCanonicalBytes" && rng.Bool(g.cfg.PRejectSem):
				// >= l: exactly l, l+small, 2^256-1, random high
				v := g.nonCanonicalScalar()
				e := alpha.LE32(v)
				c.B, c.Fault = e[:], "reject/sem"
			default:
				if op.Name == "Scalar.SetCanonicalBytes" {
					for {
						o, b := g.scalarBytes()
						if o == op.Name {
							c.B = b
							break
						}
					}
				} else {
					c.B = rng.Bytes(n)
				}
			}
		case "Element.SetBytes", "Element.SetWideBytes":
			n := 32
			if op.Name == "Element.SetWideBytes" {
				n = 64
			}
			if rng.Bool(g.cfg.PRejectLen) {
				b, isNil := g.wrongLen(n)
				c.B, c.BNil, c.Fault = b, isNil, "reject/len"
			} else {
				for {
					o, b := g.elemBytes()
					if o == op.Name {
						c.B = b
						break
					}
				}
			}
		}
	}
	if op.Bytes && c.HasB && !c.BNil && rng.Bool(0.4) {
		// the input is a window of a larger caller buffer (e.g. h[:32] of a 64-byte hash)
		c.BPad = []int{1, 32, 32, 64, 100}[rng.Intn(5)]
		c.BOff = []int{0, 0, 1, 32}[rng.Intn(4)]
	}
	if op.Bytes && c.HasB && !c.BNil && rng.Bool(0.3) {
		// the caller reuses one of its buffers for successive inputs
		c.BW = 1 + rng.Intn(3)
		if rng.Bool(0.7) {
			c.BOff = 0
		}
	}
	if op.Name == "Point.SetExtendedCoordinates" {
		c.Fault = "reject/sem" // random element quadruples are invalid with overwhelming probability
	}
	return c, true
}

// nonCanonicalScalar returns a 256-bit value >= l from assorted bands.
func (g *Gen) nonCanonicalScalar() *big.Int {
	rng := g.rng
	two256 := new(big.Int).Lsh(big.NewInt(1), 256)
	var v *big.Int
	switch rng.Intn(8) {
	case 0:
		v = new(big.Int).Set(alpha.L)
	case 1:
		v = new(big.Int).Add(alpha.L, big.NewInt(int64(1+rng.Intn(5))))
	case 2:
		v = new(big.Int).Sub(two256, big.NewInt(1))
	case 3:
		v = alpha.FromLE(rng.Bytes(32))
		v.SetBit(v, 255, 1)
	case 4: // l + 2^k
		v = new(big.Int).Lsh(big.NewInt(1), uint(rng.Intn(252)))
		v.Add(v, alpha.L)
	case 5: // uniformly in [l, 2^253)
		v = alpha.FromLE(rng.Bytes(32))
		v.Mod(v, new(big.Int).Sub(new(big.Int).Lsh(big.NewInt(1), 253), alpha.L))
		v.Add(v, alpha.L)
	case 6: // top byte 0x10, random below (almost surely >= l), or a multiple of l
		if rng.Bool(0.5) {
			b := rng.Bytes(32)
			b[31] = 0x10
			v = alpha.FromLE(b)
			if v.Cmp(alpha.L) < 0 {
				v.Add(v, alpha.L)
			}
		} else {
			v = new(big.Int).Mul(alpha.L, big.NewInt(int64(2+rng.Intn(14))))
		}
	default: // uniformly in [l, 2^256)
		v = alpha.FromLE(rng.Bytes(32))
		if v.Cmp(alpha.L) < 0 {
			v.Add(v, alpha.L)
		}
	}
	if v.Cmp(two256) >= 0 {
		v.Sub(two256, big.NewInt(1))
	}
	return v
}

// validInputFor returns an input of the right length that the setter accepts.
func (g *Gen) validInputFor(name string, n int) []byte {
	switch name {
	case "Point.SetBytes":
		return g.validPointEnc()
	case "Scalar.SetCanonicalBytes":
		for {
			o, b := g.scalarBytes()
			if o == name {
				return b
			}
		}
	}
	return g.rng.Bytes(n)
}

func (g *Gen) ledgerBytes(n int) int {
	var cand []int
	for i, l := range g.r.Ledger {
		if l.Kind == "bytes" && len(l.B) == n {
			cand = append(cand, i)
		}
	}
	if len(cand) == 0 {
		return -1
	}
	return cand[g.rng.Intn(len(cand))]
}

// Perm is a Fisher-Yates permutation.
func permOf(rng *prng.Rand, n int) []int {
	p := seq(n)
	for i := n - 1; i > 0; i-- {
		j := rng.Intn(i + 1)
		p[i], p[j] = p[j], p[i]
	}
	return p
}

// ---- setup ----

func (g *Gen) setup() {
	rng := g.rng
	w := g.r.W
	for i := range w.S {
		switch {
		case i == 0:
			g.push(Call{Op: "NewScalar", R: 0})
		default:
			op, b := g.scalarBytes()
			g.push(Call{Op: op, R: i, HasB: true, B: b})
		}
	}
	for i := range w.E {
		switch rng.Intn(6) {
		case 0:
			g.push(Call{Op: "Element.Zero", R: i})
		case 1:
			g.push(Call{Op: "Element.One", R: i})
		default:
			op, b := g.elemBytes()
			g.push(Call{Op: op, R: i, HasB: true, B: b})
		}
	}
	if g.cfg.ColdFirst && len(w.P) > 0 && len(w.E) >= 4 && len(w.S) > 1 {
		// cold-first runs (they start a fresh worker process): the first Point
		// operation of the process is not a constructor or a decoder but one of the
		// other ways a caller can obtain a point, so that lazily initialised package
		// state meets every entry point first
		last := len(w.P) - 1
		switch rng.Intn(5) {
		case 0, 1:
			g.oneRelationQuadruple([]int{0, 1, 2, 3})
			g.push(Call{Op: "Point.SetExtendedCoordinates", R: last, E: []int{0, 1, 2, 3}, Fault: "reject/sem"})
		case 2:
			g.push(Call{Op: "Point.ScalarBaseMult", R: last, S: []int{1}})
		case 3:
			g.push(Call{Op: "Point.VarTimeMultiScalarMult", R: last, S: []int{}, P: []int{}})
		default:
			g.push(Call{Op: "Point.MultiScalarMult", R: last, S: []int{}, P: []int{}})
		}
		g.r.Stats.Inc("fault/cold-first-entry-point")
	}
	for i := range w.P {
		k := rng.Intn(10)
		switch {
		case i == 0:
			g.push(Call{Op: "NewGeneratorPoint", R: i})
		case i == 1:
			g.push(Call{Op: "NewIdentityPoint", R: i})
		case k < 1:
			// leave the slot as the zero value
		default:
			g.push(Call{Op: "Point.SetBytes", R: i, HasB: true, B: g.validPointEnc()})
		}
	}
}

// ---- random steps ----

func (g *Gen) randomStep() {
	rng := g.rng
	cfg := g.cfg
	w := g.r.W
	// pseudo-operations and macros first
	if cfg.PFlood > 0 && rng.Bool(cfg.PFlood) {
		u := uint32(rng.Intn(len(floodClasses)))
		sizes := []int{300, 1100, 4200, 9000}
		if cfg.Deep {
			sizes = append(sizes, 20000, 70000)
		}
		n := sizes[rng.Intn(len(sizes))]
		if cl := floodClasses[u]; n > 4200 && (cl == "Point.ScalarMult" || cl == "Point.VarTimeDoubleScalarBaseMult" || cl == "Point.VarTimeMultiScalarMult") {
			n = 4200 // the scalar multiplications cost ~50 us each, twice
		}
		g.push(Call{Op: "H.Flood", L: n + rng.Intn(5), U: u, Mode: rng.Uint64() >> 12, Fault: "flood"})
		return
	}
	if cfg.PGC > 0 && rng.Bool(cfg.PGC) {
		g.push(Call{Op: "H.GC", Fault: "gc/pool-eviction"})
		return
	}
	if len(g.r.Ledger) > 0 && rng.Bool(cfg.PScribble) {
		g.push(Call{Op: "H.Scribble", L: rng.Intn(len(g.r.Ledger)), Mode: rng.Uint64() >> 12, Fault: "scribble"}) // (52 bits: traces pass through float64 JSON numbers in the driver)
		return
	}
	if len(g.r.Records) > 0 && rng.Bool(cfg.PProbe) {
		g.push(Call{Op: "H.Probe", L: rng.Intn(len(g.r.Records)), Mode: rng.Uint64() >> 12})
		return
	}
	if len(w.P) > 0 && len(w.E) >= 5 && rng.Bool(cfg.PImport) {
		g.importMacro()
		return
	}
	if len(w.P) >= 3 && rng.Bool(cfg.PRelatives) {
		if g.relativesMacro() {
			return
		}
	}
	if len(w.P) > 0 && rng.Bool(cfg.PMisuse) {
		if g.misuseStep() {
			return
		}
	}
	if len(g.ops) == 0 {
		return
	}
	for try := 0; try < 20; try++ {
		op := g.ops[rng.Weighted(g.wts)]
		c, ok := g.buildCall(op)
		if !ok {
			continue
		}
		if op.Recv == KPoint && op.Writes && !op.RecvInput && !op.Dynamic && rng.Bool(cfg.PZeroRecv) {
			// "var v Point" as the receiver (unless it is also an input)
			isArg := false
			for _, i := range c.P {
				if i == c.R {
					isArg = true
				}
			}
			if !isArg {
				g.push(Call{Op: "H.ZeroPoint", R: c.R})
			}
		}
		g.push(c)
		return
	}
}

// importMacro: export the coordinates of a point, scale them by a common
// factor taken from the element pool, import them again. Variants perturb the
// quadruple so that the import must be rejected.
func (g *Gen) importMacro() {
	rng := g.rng
	w := g.r.W
	ip := g.initPoints()
	if len(ip) == 0 {
		return
	}
	src := ip[rng.Intn(len(ip))]
	perm := permOf(rng, len(w.E))
	e := perm[:4]
	lam := perm[4]
	dst := rng.Intn(len(w.P))
	if rng.Bool(0.3) {
		// algebraically special scale factors: -1, 2, 1/2, small, 2^k
		var v *big.Int
		switch rng.Intn(5) {
		case 0, 1:
			v = new(big.Int).Sub(alpha.P, big.NewInt(1))
		case 2:
			v = big.NewInt(2)
		case 3:
			v = new(big.Int).Rsh(new(big.Int).Add(alpha.P, big.NewInt(1)), 1)
		default:
			v = new(big.Int).Lsh(big.NewInt(1), uint(rng.Intn(255)))
			v.Mod(v, alpha.P)
		}
		lb := alpha.LE32(v)
		g.push(Call{Op: "Element.SetBytes", R: lam, HasB: true, B: lb[:]})
	}
	g.push(Call{Op: "Point.ExtendedCoordinates", R: src, E: append([]int{}, e...)})
	variant := rng.Intn(10)
	fault := ""
	noScale := rng.Bool(0.25) // re-import the exported coordinates as they are (bit-identical X, Y)
	for k := 0; k < 4; k++ {
		if noScale && variant != 0 {
			break
		}
		if variant == 0 && k == 3 {
			fault = "reject/sem" // T not scaled: inconsistent quadruple (unless lambda == 1)
			continue
		}
		g.push(Call{Op: "Element.Multiply", R: e[k], E: []int{e[k], lam}})
	}
	switch variant {
	case 1:
		g.push(Call{Op: "Element.Negate", R: e[3], E: []int{e[3]}})
		fault = "reject/sem" // T with the wrong sign
	case 2:
		g.push(Call{Op: "Element.Add", R: e[rng.Intn(4)], E: []int{e[0], e[1]}})
		fault = "reject/sem" // one coordinate perturbed
	case 3:
		// a quadruple of zeros in assorted limb forms
		fault = "reject/sem"
		for k := 0; k < 4; k++ {
			switch rng.Intn(4) {
			case 0:
				g.push(Call{Op: "Element.Zero", R: e[k]})
			case 1:
				g.push(Call{Op: "Element.Subtract", R: e[k], E: []int{e[k], e[k]}})
			case 2:
				pb := alpha.LE32(alpha.P)
				g.push(Call{Op: "Element.SetBytes", R: e[k], HasB: true, B: pb[:]})
			default:
				g.push(Call{Op: "Element.Mult32", R: e[k], E: []int{e[k]}, U: 0})
			}
		}
	case 4:
		// the same *Element passed several times
		j := rng.Intn(4)
		e[(j+1)%4] = e[j]
		fault = "reject/sem"
	case 8, 9:
		if rng.Bool(0.5) {
			g.oneRelationQuadruple(e)
			fault = "reject/sem"
		}
	case 7:
		// XY = ZT still holds, the curve equation does not: X and T scaled once more
		g.push(Call{Op: "Element.Multiply", R: e[0], E: []int{e[0], lam}})
		g.push(Call{Op: "Element.Multiply", R: e[3], E: []int{e[3], lam}})
		fault = "reject/sem"
	case 5:
		// a VALID transformation: (X : Y : -Z : -T) is the point (-x, -y) = P + (0,-1),
		// sharing X and Y with the source representation
		g.push(Call{Op: "Element.Negate", R: e[2], E: []int{e[2]}})
		g.push(Call{Op: "Element.Negate", R: e[3], E: []int{e[3]}})
	case 6:
		// a VALID transformation: (-X : Y : Z : -T) is -P, sharing Y and Z
		g.push(Call{Op: "Element.Negate", R: e[0], E: []int{e[0]}})
		g.push(Call{Op: "Element.Negate", R: e[3], E: []int{e[3]}})
	}
	if rng.Bool(g.cfg.PZeroRecv) && dst != src {
		g.push(Call{Op: "H.ZeroPoint", R: dst})
	}
	g.push(Call{Op: "Point.SetExtendedCoordinates", R: dst, E: append([]int{}, e...), Fault: fault})
}

// relativesMacro makes a second operand that is algebraically related to an
// existing point - an equal value in different storage, possibly in another
// projective representation, its negative, or the point plus a small-order
// point - and then feeds both to a two-operand operation. Equal values at
// different addresses are what pointer-based fast paths get wrong.
func (g *Gen) relativesMacro() bool {
	rng := g.rng
	w := g.r.W
	ip := g.initPoints()
	if len(ip) == 0 {
		return false
	}
	p := ip[rng.Intn(len(ip))]
	q := rng.Intn(len(w.P))
	for q == p {
		q = rng.Intn(len(w.P))
	}
	switch rng.Intn(7) {
	case 6: // another point with bit-identical X and Y: (X : Y : -Z : -T) = p + (0,-1)
		if len(w.E) >= 4 {
			e := permOf(rng, len(w.E))[:4]
			g.push(Call{Op: "Point.ExtendedCoordinates", R: p, E: append([]int{}, e...)})
			g.push(Call{Op: "Element.Negate", R: e[2], E: []int{e[2]}})
			g.push(Call{Op: "Element.Negate", R: e[3], E: []int{e[3]}})
			g.push(Call{Op: "Point.SetExtendedCoordinates", R: q, E: append([]int{}, e...)})
		} else {
			g.push(Call{Op: "Point.Negate", R: q, P: []int{p}})
		}
	case 0:
		g.push(Call{Op: "Point.Set", R: q, P: []int{p}})
	case 1:
		g.push(Call{Op: "Point.Negate", R: q, P: []int{p}})
	case 2: // same point, fresh representation with Z = 1 (encode, decode)
		g.push(Call{Op: "Point.Bytes", R: p})
		g.pendingBL = q + 1
	case 3: // same point, other representation through a scaled re-import
		if len(w.E) >= 5 {
			perm := permOf(rng, len(w.E))
			e, lam := perm[:4], perm[4]
			g.push(Call{Op: "Point.ExtendedCoordinates", R: p, E: append([]int{}, e...)})
			for k := 0; k < 4; k++ {
				g.push(Call{Op: "Element.Multiply", R: e[k], E: []int{e[k], lam}})
			}
			g.push(Call{Op: "Point.SetExtendedCoordinates", R: q, E: append([]int{}, e...)})
		} else {
			g.push(Call{Op: "Point.Set", R: q, P: []int{p}})
		}
	case 4: // the negative in another representation: -(p + p) + p
		g.push(Call{Op: "Point.Add", R: q, P: []int{p, p}})
		g.push(Call{Op: "Point.Subtract", R: q, P: []int{p, q}})
	default: // p plus a small-order point
		e := torsionEnc[1+rng.Intn(7)]
		g.push(Call{Op: "Point.SetBytes", R: q, HasB: true, B: e[:]})
		g.push(Call{Op: "Point.Add", R: q, P: []int{p, q}})
	}
	g.pendingPair = [2]int{p, q}
	g.pendingOp = []string{"Point.Add", "Point.Subtract", "Point.Equal", "Point.Add", "Point.Subtract", "Point.VarTimeMultiScalarMult", "Point.MultiScalarMult",
		"pair:Point.VarTimeDoubleScalarBaseMult", "pair:Point.ScalarMult", "pair:Point.VarTimeDoubleScalarBaseMult", "pair:Point.MultByCofactor", "pair:Point.Bytes"}[rng.Intn(12)]
	g.havePending = true
	return true
}

// flushPending emits the two-operand operation prepared by relativesMacro
// (after the preparation steps have executed, so that ledger indices exist).
func (g *Gen) flushPending() {
	rng := g.rng
	w := g.r.W
	g.havePending = false
	p, q := g.pendingPair[0], g.pendingPair[1]
	if g.pendingBL > 0 {
		// decode the encoding that Point.Bytes just returned into slot q
		k := -1
		for i := len(g.r.Ledger) - 1; i >= 0; i-- {
			if g.r.Ledger[i].Kind == "bytes" && len(g.r.Ledger[i].B) == 32 {
				k = i
				break
			}
		}
		dst := g.pendingBL - 1
		g.pendingBL = 0
		if k >= 0 {
			g.push(Call{Op: "Point.SetBytes", R: dst, BL: k + 1})
		}
		g.havePending = true // the operation itself follows in the next round
		return
	}
	r := rng.Intn(len(w.P))
	if rng.Bool(0.3) {
		r = []int{p, q}[rng.Intn(2)]
	}
	ops := []int{p, q}
	if rng.Bool(0.5) {
		ops = []int{q, p}
	}
	if strings.HasPrefix(g.pendingOp, "pair:") {
		// the same one-point operation on both relatives, back to back (caches keyed
		// on part of the operand)
		name := g.pendingOp[len("pair:"):]
		if len(w.S) == 0 {
			return
		}
		s1, s2 := rng.Intn(len(w.S)), rng.Intn(len(w.S))
		for _, x := range ops {
			r := rng.Intn(len(w.P))
			switch name {
			case "Point.VarTimeDoubleScalarBaseMult":
				g.push(Call{Op: name, R: r, P: []int{x}, S: []int{s1, s2}})
			case "Point.ScalarMult":
				g.push(Call{Op: name, R: r, P: []int{x}, S: []int{s1}})
			case "Point.MultByCofactor":
				g.push(Call{Op: name, R: r, P: []int{x}})
			default:
				g.push(Call{Op: "Point.Bytes", R: x})
			}
		}
		return
	}
	switch g.pendingOp {
	case "Point.Equal":
		g.push(Call{Op: "Point.Equal", R: ops[0], P: []int{ops[1]}})
	case "Point.VarTimeMultiScalarMult", "Point.MultiScalarMult":
		if len(w.S) == 0 {
			return
		}
		g.push(Call{Op: g.pendingOp, R: r, P: []int{ops[0], ops[1]}, S: []int{rng.Intn(len(w.S)), rng.Intn(len(w.S))}})
	default:
		g.push(Call{Op: g.pendingOp, R: r, P: []int{ops[0], ops[1]}})
	}
}

// oneRelationQuadruple overwrites the four element slots with a quadruple,
// computed in the harness, that satisfies exactly one of the two relations
// (or neither, with Z = 0): the classes a weakened import check would let in.
func (g *Gen) oneRelationQuadruple(e []int) {
	rng := g.rng
	P := alpha.P
	rnd := func() *big.Int {
		v := alpha.FromLE(rng.Bytes(32))
		return v.Mod(v, P)
	}
	mulm := func(a, b *big.Int) *big.Int { v := new(big.Int).Mul(a, b); return v.Mod(v, P) }
	var X, Y, Z, T *big.Int
	for try := 0; try < 50; try++ {
		X, Y, Z, T = rnd(), rnd(), rnd(), rnd()
		switch rng.Intn(7) {
		case 6:
			// a point of a NEIGHBOURING curve -x^2+y^2 = 1+d'x^2y^2 (d' = 0, 1, -d, 2d,
			// d+1), in a consistent projective representation: both relations hold
			// with the wrong constant, the curve equation does not hold with d
			dd := []*big.Int{big.NewInt(0), big.NewInt(1), new(big.Int).Sub(P, alpha.D), mulm(big.NewInt(2), alpha.D), new(big.Int).Add(alpha.D, big.NewInt(1))}[rng.Intn(5)]
			x := rnd()
			num := new(big.Int).Add(big.NewInt(1), mulm(x, x))
			den := new(big.Int).Sub(big.NewInt(1), mulm(dd, mulm(x, x)))
			den.Mod(den, P)
			if den.Sign() == 0 {
				X, Y, T = nil, nil, nil
				continue
			}
			y := new(big.Int).ModSqrt(mulm(num, new(big.Int).ModInverse(den, P)), P)
			if y == nil {
				X, Y, T = nil, nil, nil
				continue
			}
			if rng.Bool(0.3) {
				Z = big.NewInt(1)
			}
			if Z.Sign() == 0 {
				Z = big.NewInt(1)
			}
			X, Y, T = mulm(x, Z), mulm(y, Z), mulm(mulm(x, y), Z)
		case 0: // X = 0, curve equation holds, T != 0: Y^2 = Z^2 + d T^2
			X = big.NewInt(0)
			y2 := new(big.Int).Add(mulm(Z, Z), mulm(alpha.D, mulm(T, T)))
			Y = new(big.Int).ModSqrt(y2.Mod(y2, P), P)
		case 1: // Y = 0: -X^2 = Z^2 + d T^2
			Y = big.NewInt(0)
			x2 := new(big.Int).Add(mulm(Z, Z), mulm(alpha.D, mulm(T, T)))
			x2.Neg(x2).Mod(x2, P)
			X = new(big.Int).ModSqrt(x2, P)
		case 2: // curve equation only: T^2 = (-X^2 + Y^2 - Z^2)/d
			t2 := new(big.Int).Sub(mulm(Y, Y), mulm(X, X))
			t2.Sub(t2, mulm(Z, Z)).Mod(t2, P)
			t2 = mulm(t2, new(big.Int).ModInverse(alpha.D, P))
			T = new(big.Int).ModSqrt(t2, P)
		case 3: // X*Y = Z*T only
			T = mulm(mulm(X, Y), new(big.Int).ModInverse(Z, P))
		case 4: // Z = 0, one of X, Y zero
			Z = big.NewInt(0)
			if rng.Bool(0.5) {
				X = big.NewInt(0)
			} else {
				Y = big.NewInt(0)
			}
		default: // Z = 0, T = 0, X^2 = Y^2 (both relations hold projectively, no point)
			Z, T = big.NewInt(0), big.NewInt(0)
			Y = new(big.Int).Set(X)
		}
		if X != nil && Y != nil && T != nil {
			break
		}
	}
	if X == nil || Y == nil || T == nil {
		return
	}
	for k, v := range []*big.Int{X, Y, Z, T} {
		b := alpha.LE32(v)
		g.push(Call{Op: "Element.SetBytes", R: e[k], HasB: true, B: b[:]})
	}
}

// thresholdSize draws a term-list length around the sizes at which an
// implementation may plausibly switch strategy (chunking, bucket methods, pooled
// scratch): m*b-1, m*b, m*b+1 for round b and small m, or any length up to max.
func thresholdSize(rng *prng.Rand, max int) int {
	bases := []int{8, 16, 32, 64, 128, 256, 512, 1024, 10, 50, 100, 200, 250, 500, 1000}
	for try := 0; try < 40; try++ {
		if rng.Bool(0.2) {
			return 34 + rng.Intn(max-33)
		}
		n := bases[rng.Intn(len(bases))]*(1+rng.Intn(4)) + rng.Intn(3) - 1
		if n >= 5 && n <= max {
			return n
		}
	}
	return max
}

// misuseStep injects a zero-value Point at one input position, or a length
// mismatch into a multi-scalar call.
func (g *Gen) misuseStep() bool {
	rng := g.rng
	var cands []*OpDesc
	for _, o := range Alphabet {
		if o.Pseudo || o.Ctor || o.Name == "Point.Set" {
			continue
		}
		if (o.Recv == KPoint && o.RecvInput) || o.NP > 0 || o.Multi {
			cands = append(cands, o)
		}
	}
	op := cands[rng.Intn(len(cands))]
	c, ok := g.buildCall(op)
	if !ok {
		return false
	}
	if op.Multi && rng.Bool(0.4) {
		// length mismatch
		if rng.Bool(0.15) {
			// ... on a long list, where an implementation may take another path
			ip := g.initPoints()
			n := thresholdSize(rng, 700)
			c.P, c.S = nil, nil
			for i := 0; i < n && len(ip) > 0; i++ {
				c.P = append(c.P, ip[rng.Intn(len(ip))])
				c.S = append(c.S, rng.Intn(len(g.r.W.S)))
			}
		}
		switch {
		case rng.Bool(0.4) && len(c.S) > 0:
			c.S = c.S[:len(c.S)-1]
		case rng.Bool(0.3) && len(c.P) > 0:
			c.P = c.P[:len(c.P)-1] // more scalars than points
		case rng.Bool(0.5):
			c.S = append(c.S, rng.Intn(len(g.r.W.S)))
		default:
			if ip := g.initPoints(); len(ip) > 0 {
				c.P = append(c.P, ip[rng.Intn(len(ip))])
			} else {
				c.S = append(c.S, rng.Intn(len(g.r.W.S)))
			}
		}
		c.Fault = "misuse/len"
		g.push(c)
		return true
	}
	// choose the position that gets the zero value
	zs := g.zeroPoints()
	var z int
	var pre []Call
	if len(zs) > 0 {
		z = zs[rng.Intn(len(zs))]
	} else {
		z = rng.Intn(len(g.r.W.P))
		pre = append(pre, Call{Op: "H.ZeroPoint", R: z})
	}
	var positions []int // -1 = receiver
	if op.RecvInput {
		positions = append(positions, -1)
	}
	for j := range c.P {
		positions = append(positions, j)
	}
	if len(positions) == 0 {
		return false
	}
	pos := positions[rng.Intn(len(positions))]
	if pos == -1 {
		c.R = z
	} else {
		c.P[pos] = z
	}
	c.Fault = "misuse/uninit"
	g.push(pre...)
	g.push(c)
	return true
}

// ---- enumerations ----

// partitions enumerates all set partitions of n items as block-index vectors.
func partitions(n int) [][]int {
	var out [][]int
	cur := make([]int, n)
	var rec func(i, maxb int)
	rec = func(i, maxb int) {
		if i == n {
			out = append(out, append([]int{}, cur...))
			return
		}
		for b := 0; b <= maxb+1; b++ {
			cur[i] = b
			nm := maxb
			if b > maxb {
				nm = b
			}
			rec(i+1, nm)
		}
	}
	if n == 0 {
		return [][]int{{}}
	}
	cur[0] = 0
	rec(1, 0)
	return out
}

func (g *Gen) enumerate() {
	switch g.cfg.Enum {
	case "alias":
		g.enumAlias()
	case "misuse":
		g.enumMisuse()
	case "reject":
		g.enumReject()
	}
}

// distinctSlots draws k distinct slots from pool (nil if impossible).
func (g *Gen) distinctSlots(pool []int, k int) []int {
	if len(pool) < k {
		return nil
	}
	p := permOf(g.rng, len(pool))
	out := make([]int, k)
	for i := range out {
		out[i] = pool[p[i]]
	}
	return out
}

// enumAlias: every method x every set partition of {receiver} U {same-typed
// pointer arguments}; multi-scalar shapes; coordinate quadruples.
func (g *Gen) enumAlias() {
	w := g.r.W
	for d := 0; d < g.cfg.EnumDraws; d++ {
		for _, op := range Alphabet {
			if op.Pseudo || op.Ctor || op.Dynamic {
				continue
			}
			if op.Multi {
				g.enumAliasMulti(op)
				continue
			}
			// operands by kind: occurrence lists
			nP, nS, nE := op.NP, op.NS, op.NE
			if op.OutElems {
				nE = 0
			}
			recvK := op.Recv
			occ := func(k Kind, n int) int {
				if recvK == k {
					return n + 1
				}
				return n
			}
			partsP := partitions(occ(KPoint, nP))
			partsS := partitions(occ(KScalar, nS))
			partsE := partitions(occ(KElem, nE))
			for _, pp := range partsP {
				for _, ps := range partsS {
					for _, pe := range partsE {
						// skip the all-distinct shape unless the op has a single operand kind
						c, ok := g.buildCall(op)
						if !ok {
							continue
						}
						assign := func(k Kind, part []int, pool []int, recvInit bool, args []int) bool {
							if len(part) == 0 {
								return true
							}
							nb := 0
							for _, b := range part {
								if b+1 > nb {
									nb = b + 1
								}
							}
							slots := g.distinctSlots(pool, nb)
							if slots == nil {
								return false
							}
							j := 0
							if recvK == k {
								c.R = slots[part[0]]
								j = 1
							}
							for a := range args {
								args[a] = slots[part[j+a]]
							}
							return true
						}
						ipool := g.initPoints()
						// point operands that are inputs need initialised slots; a
						// pure receiver aliased to an input is initialised too
						okP := assign(KPoint, pp, ipool, true, c.P)
						okS := assign(KScalar, ps, seq(len(w.S)), true, c.S)
						okE := true
						if !op.OutElems {
							okE = assign(KElem, pe, seq(len(w.E)), true, c.E)
						}
						if !(okP && okS && okE) {
							continue
						}
						c.Fault = "alias/" + aliasShape(op, &c)
						if op.Name == "Point.SetExtendedCoordinates" {
							// make the shape meaningful: a valid quadruple from a point when distinct
							c.Fault = "alias/" + aliasShape(op, &c)
						}
						g.push(c)
					}
				}
			}
			if op.Name == "Point.SetExtendedCoordinates" {
				// the four pointers straight from a point's own export, fed back
				ip := g.initPoints()
				if len(ip) > 0 && len(w.E) >= 4 {
					src := ip[g.rng.Intn(len(ip))]
					e := g.distinctSlots(seq(len(w.E)), 4)
					g.push(Call{Op: "Point.ExtendedCoordinates", R: src, E: e})
					g.push(Call{Op: "Point.SetExtendedCoordinates", R: src, E: append([]int{}, e...), Fault: "alias/reimport-own-coordinates"})
				}
			}
		}
	}
}

func (g *Gen) enumAliasMulti(op *OpDesc) {
	rng := g.rng
	w := g.r.W
	ip := g.initPoints()
	if len(ip) == 0 || len(w.S) == 0 {
		return
	}
	// long term lists with the receiver in the tail (and at the very end)
	for _, n := range []int{17, 40, 130, 260, 600, 1100} {
		if n > 300 && !rng.Bool(0.15) {
			continue
		}
		c := Call{Op: op.Name}
		for i := 0; i < n; i++ {
			c.P = append(c.P, ip[rng.Intn(len(ip))])
			c.S = append(c.S, rng.Intn(len(w.S)))
		}
		j := n - 1 - rng.Intn(3)
		// the receiver's slot appears exactly once, at index j
		recv := ip[rng.Intn(len(ip))]
		for i := range c.P {
			if c.P[i] == recv && len(ip) > 1 {
				for c.P[i] == recv {
					c.P[i] = ip[rng.Intn(len(ip))]
				}
			}
		}
		c.P[j] = recv
		c.R = recv
		c.Fault = fmt.Sprintf("alias/multi/recv=points[%d]/n=%d", j, n)
		g.push(c)
	}
	for n := 1; n <= 4; n++ {
		// receiver in points at each index
		for j := 0; j < n; j++ {
			c := Call{Op: op.Name}
			for i := 0; i < n; i++ {
				c.P = append(c.P, ip[rng.Intn(len(ip))])
				c.S = append(c.S, rng.Intn(len(w.S)))
			}
			c.R = c.P[j]
			c.Fault = fmt.Sprintf("alias/multi/recv=points[%d]/n=%d", j, n)
			g.push(c)
		}
		if n >= 2 {
			// same *Point at several indices, same *Scalar at several indices, both
			for variant := 0; variant < 4; variant++ {
				c := Call{Op: op.Name}
				for i := 0; i < n; i++ {
					c.P = append(c.P, ip[rng.Intn(len(ip))])
					c.S = append(c.S, rng.Intn(len(w.S)))
				}
				a, b := rng.Intn(n), rng.Intn(n-1)
				if b >= a {
					b++
				}
				switch variant {
				case 0:
					c.P[b] = c.P[a]
				case 1:
					c.S[b] = c.S[a]
				case 2:
					c.P[b] = c.P[a]
					c.S[b] = c.S[a]
				default:
					for i := range c.P {
						c.P[i] = c.P[0]
					}
					c.R = c.P[0]
				}
				if variant != 3 {
					c.R = rng.Intn(len(w.P))
				}
				c.Fault = fmt.Sprintf("alias/multi/variant%d/n=%d", variant, n)
				g.push(c)
			}
		}
	}
}

// enumMisuse: a zero-value Point at every Point-typed input position of every
// operation (and every subset for two-input operations), all length
// mismatches, and the converse: zero-value pure receivers.
func (g *Gen) enumMisuse() {
	rng := g.rng
	w := g.r.W
	if len(w.P) < 3 {
		return
	}
	for d := 0; d < g.cfg.EnumDraws; d++ {
		for _, op := range Alphabet {
			if op.Pseudo || op.Ctor || op.Recv != KPoint && op.NP == 0 && !op.Multi {
				continue
			}
			if !(op.Recv == KPoint) {
				continue
			}
			// converse: zero-value pure receiver with valid inputs must not panic
			if op.Writes && !op.RecvInput && !op.Dynamic {
				c, ok := g.buildCall(op)
				if ok {
					isArg := false
					for _, i := range c.P {
						if i == c.R {
							isArg = true
						}
					}
					if !isArg {
						c.Fault = "recv/zero"
						if op.Name == "Point.SetExtendedCoordinates" {
							c.Fault = ""
						}
						g.push(Call{Op: "H.ZeroPoint", R: c.R}, c)
					}
				}
			}
			if op.Name == "Point.Set" {
				continue
			}
			if op.Multi {
				ns := []int{1, 2, 3, 4, 5, 8, 16, 17, 32, 64, 65, 129, 257, 513, 600}
				for _, n := range ns {
					if n > 129 && !rng.Bool(0.25) {
						continue // the very long lists only in a quarter of the enumerating runs
					}
					for j := 0; j < n; j++ {
						if n > 5 && j != 0 && j != n-1 && j != n/2 && j != 13%n {
							continue // long lists: first, middle, 13th and last position
						}
						ip := g.initPoints()
						if len(ip) < 1 {
							continue
						}
						z := rng.Intn(len(w.P))
						c := Call{Op: op.Name, Fault: "misuse/uninit"}
						for i := 0; i < n; i++ {
							p := ip[rng.Intn(len(ip))]
							for p == z && len(ip) > 1 {
								p = ip[rng.Intn(len(ip))]
							}
							c.P = append(c.P, p)
							c.S = append(c.S, rng.Intn(len(w.S)))
						}
						c.P[j] = z
						// receiver: fresh/used or aliased to the bad operand
						c.R = rng.Intn(len(w.P))
						if rng.Bool(0.3) {
							c.R = z
						}
						saved := Call{Op: "H.ZeroPoint", R: z}
						g.push(saved, c)
						// the slot z stays zero; re-initialise it so that the pool does not drain
						g.push(Call{Op: "Point.SetBytes", R: z, HasB: true, B: g.validPointEnc()})
					}
				}
				// length mismatches on long lists: one more / one fewer scalar than points
				for _, lp := range []int{16, 64, 128, 129, 256, 257, 258, 512, 513, 600, 1025} {
					if lp > 129 && !rng.Bool(0.25) {
						continue
					}
					for _, d := range []int{-1, 1, 2, -lp / 2} {
						ip := g.initPoints()
						if len(ip) == 0 {
							continue
						}
						c := Call{Op: op.Name, Fault: "misuse/len", P: []int{}, S: []int{}}
						for i := 0; i < lp; i++ {
							c.P = append(c.P, ip[rng.Intn(len(ip))])
						}
						for i := 0; i < lp+d; i++ {
							c.S = append(c.S, rng.Intn(len(w.S)))
						}
						c.R = rng.Intn(len(w.P))
						g.push(c)
					}
				}
				// length mismatches
				for ls := 0; ls <= 4; ls++ {
					for lp := 0; lp <= 4; lp++ {
						if ls == lp {
							continue
						}
						ip := g.initPoints()
						if len(ip) == 0 {
							continue
						}
						c := Call{Op: op.Name, Fault: "misuse/len", P: []int{}, S: []int{}}
						for i := 0; i < lp; i++ {
							c.P = append(c.P, ip[rng.Intn(len(ip))])
						}
						for i := 0; i < ls; i++ {
							c.S = append(c.S, rng.Intn(len(w.S)))
						}
						c.R = rng.Intn(len(w.P))
						g.push(c)
					}
				}
				continue
			}
			// fixed-arity operations: every non-empty subset of input positions
			var positions []int // -1 receiver
			if op.RecvInput {
				positions = append(positions, -1)
			}
			for j := 0; j < op.NP; j++ {
				positions = append(positions, j)
			}
			if len(positions) == 0 {
				continue
			}
			for mask := 1; mask < 1<<len(positions); mask++ {
				c, ok := g.buildCall(op)
				if !ok {
					continue
				}
				z := rng.Intn(len(w.P))
				// make sure the good operands are not z
				ip := g.initPoints()
				good := []int{}
				for _, i := range ip {
					if i != z {
						good = append(good, i)
					}
				}
				if len(good) == 0 {
					continue
				}
				for j := range c.P {
					c.P[j] = good[rng.Intn(len(good))]
				}
				if op.RecvInput || op.Dynamic {
					c.R = good[rng.Intn(len(good))]
				} else {
					c.R = rng.Intn(len(w.P))
					if rng.Bool(0.3) {
						c.R = z // receiver aliased to the bad operand
					}
				}
				for b, pos := range positions {
					if mask&(1<<b) == 0 {
						continue
					}
					if pos == -1 {
						c.R = z
					} else {
						c.P[pos] = z
					}
				}
				c.Fault = "misuse/uninit"
				g.push(Call{Op: "H.ZeroPoint", R: z}, c)
				g.push(Call{Op: "Point.SetBytes", R: z, HasB: true, B: g.validPointEnc()})
			}
		}
	}
}

// enumReject: seven fallible setters x fault kinds x receiver states.
func (g *Gen) enumReject() {
	rng := g.rng
	w := g.r.W
	lens := func(n int) []int {
		return []int{0, 1, n - 1, n + 1, 2 * n, n / 2, 31, 33, 63, 65, 200, 16, 32, 64, 128}
	}
	for d := 0; d < g.cfg.EnumDraws; d++ {
		for _, op := range Alphabet {
			if !op.Fallible {
				continue
			}
			var pool int
			switch op.Recv {
			case KPoint:
				pool = len(w.P)
			case KScalar:
				pool = len(w.S)
			case KElem:
				pool = len(w.E)
			}
			if pool == 0 {
				continue
			}
			recv := func() (int, []Call) {
				r := rng.Intn(pool)
				if op.Recv == KPoint && rng.Bool(0.25) {
					return r, []Call{{Op: "H.ZeroPoint", R: r}}
				}
				return r, nil
			}
			if op.Bytes {
				n := 32
				if op.Name == "Scalar.SetUniformBytes" || op.Name == "Element.SetWideBytes" {
					n = 64
				}
				for _, l := range lens(n) {
					if l == n {
						continue
					}
					r, pre := recv()
					g.push(pre...)
					g.push(Call{Op: op.Name, R: r, HasB: true, B: rng.Bytes(l), Fault: "reject/len", BPad: []int{0, 32, 64}[rng.Intn(3)]})
				}
				r, pre := recv()
				g.push(pre...)
				g.push(Call{Op: op.Name, R: r, HasB: true, BNil: true, Fault: "reject/len"})
				// right length prefix of a longer backing array is fine; a valid call in between
				r, pre = recv()
				g.push(pre...)
				switch op.Name {
				case "Point.SetBytes":
					g.push(Call{Op: op.Name, R: r, HasB: true, B: g.offCurveEnc(), Fault: "reject/sem"})
					// input aliasing a previously returned encoding that is then rejected is impossible; accepted one:
					g.push(Call{Op: op.Name, R: rng.Intn(pool), HasB: true, B: g.validPointEnc()})
				case "Scalar.SetCanonicalBytes":
					for k := 0; k < 8; k++ {
						v := g.nonCanonicalScalar()
						if k == 0 {
							v = new(big.Int).Set(alpha.L)
						}
						e := alpha.LE32(v)
						g.push(Call{Op: op.Name, R: rng.Intn(pool), HasB: true, B: e[:], Fault: "reject/sem"})
					}
					lm1 := alpha.LE32(new(big.Int).Sub(alpha.L, big.NewInt(1)))
					g.push(Call{Op: op.Name, R: rng.Intn(pool), HasB: true, B: lm1[:]})
				default:
					g.push(Call{Op: op.Name, R: r, HasB: true, B: rng.Bytes(n)})
				}
				// right length, window of a larger buffer
				g.push(Call{Op: op.Name, R: rng.Intn(pool), HasB: true, B: g.validInputFor(op.Name, n), BPad: []int{32, 64, 100}[rng.Intn(3)], BOff: rng.Intn(2) * 32})
				continue
			}
			// Point.SetExtendedCoordinates: invalid quadruples of each sub-kind
			if len(w.E) >= 5 {
				for k := 0; k < 6; k++ {
					g.importMacro()
				}
				// random quadruple from the pool
				c, ok := g.buildCall(op)
				if ok {
					g.push(c)
				}
			}
		}
	}
}

// ---- Rand helper ----

func (g *Gen) Perm(n int) []int { return permOf(g.rng, n) }
