package hist

import (
	"fmt"
	"math/bits"

	"verifsim/alpha"
	"verifsim/prng"
)

// Objective-guided history search for C09 ("no sequence of operations can push a
// representation outside the range on which this holds").
//
// Uniformly random histories revisit the same limb magnitudes: most operations
// carry-propagate, so large limbs only appear when the right operations follow
// each other on the right slots. A climb run is a seeded hill-climb over
// field-only histories whose objective is the largest limb held by any slot:
// every generation proposes a few short extensions of the current history,
// executes each candidate from the empty world under the ordinary C09 oracles
// (value of the nine operations against GF(p), every limb < 2^52 after every
// step) and keeps the one that leaves the largest limbs behind. The history it
// ends with is then extended by an "exploit" tail that feeds the largest
// representations found to every one of the nine operations, in every operand
// position. All choices come from the run's PRNG; the result is an ordinary
// trace (replayable, minimisable).

const climbNE = 8

// climbFitness is the objective of a climb run, by kind:
//
//	0    the largest limb of any slot (ties: sum of all limbs)
//	1    the largest "smallest limb" of any slot: one operand whose five limbs
//	     are all large (what the multiplication's column sums care about)
//	2..6 the largest limb at position kind-2
func climbFitness(r *Run, kind int) (max uint64, sum uint64) {
	for _, e := range r.W.E {
		l := alpha.ElemLimbs(e)
		var m uint64
		switch {
		case kind == 0:
			m = l.Max()
		case kind == 1:
			m = l[0]
			for _, x := range l {
				if x < m {
					m = x
				}
			}
		default:
			m = l[kind-2]
		}
		if m > max {
			max = m
		}
		for _, x := range l {
			sum += x >> 20
		}
	}
	return
}

func allOnes(n int) Hex {
	b := make([]byte, n)
	for i := range b {
		b[i] = 0xff
	}
	return b
}

func climbSeedCalls(rng *prng.Rand) []Call {
	cs := []Call{
		{Op: "Element.SetWideBytes", R: 0, HasB: true, B: allOnes(64)},
		{Op: "Element.SetBytes", R: 1, HasB: true, B: allOnes(32)},
		{Op: "Element.One", R: 2},
		{Op: "Element.Zero", R: 3},
	}
	for i := 4; i < climbNE; i++ {
		b := make([]byte, 32)
		switch rng.Intn(4) {
		case 0:
			for j := range b {
				b[j] = byte(rng.Uint64())
			}
		case 1: // p-1 .. p+18 region, bit 255 set
			copy(b, allOnes(32))
			b[0] = byte(0xec - 1 + rng.Intn(20))
		case 2: // every limb 2^51-1 except a random one
			copy(b, allOnes(32))
			b[rng.Intn(32)] = byte(rng.Uint64())
		default:
			b[rng.Intn(32)] = 1 << uint(rng.Intn(8))
		}
		cs = append(cs, Call{Op: "Element.SetBytes", R: i, HasB: true, B: b})
	}
	return cs
}

var climbU32 = []uint32{0xffffffff, 0xfffffffe, 0x80000000, 0x7fffffff, 0x10000, 3, 2, 1, 0}

// climbStep draws one call of the limb-growing menu. big is the index of the
// slot that currently holds the largest limb.
func climbStep(rng *prng.Rand, big int) Call {
	sl := func() int {
		if rng.Bool(0.45) {
			return big
		}
		return rng.Intn(climbNE)
	}
	switch rng.Intn(16) {
	case 0, 1, 2:
		return Call{Op: "Element.Add", R: sl(), E: []int{sl(), sl()}}
	case 3, 4, 5:
		return Call{Op: "Element.Subtract", R: sl(), E: []int{sl(), sl()}}
	case 6:
		return Call{Op: "Element.Negate", R: sl(), E: []int{sl()}}
	case 7, 8, 9, 10:
		u := climbU32[rng.Intn(len(climbU32))]
		if rng.Bool(0.2) {
			u = uint32(rng.Uint64())
		}
		return Call{Op: "Element.Mult32", R: sl(), E: []int{sl()}, U: u}
	case 11:
		return Call{Op: "Element.Select", R: sl(), E: []int{sl(), sl()}, C: rng.Intn(2)}
	case 12:
		return Call{Op: "Element.Swap", R: sl(), E: []int{sl()}, C: rng.Intn(2)}
	case 13:
		return Call{Op: "Element.Set", R: sl(), E: []int{sl()}}
	case 14:
		return Call{Op: "Element.Multiply", R: sl(), E: []int{sl(), sl()}}
	default:
		if rng.Bool(0.5) {
			return Call{Op: "Element.Square", R: sl(), E: []int{sl()}}
		}
		return Call{Op: "Element.Absolute", R: sl(), E: []int{sl()}}
	}
}

func slotScore(l alpha.Limbs, kind int) uint64 {
	switch {
	case kind == 0:
		return l.Max()
	case kind == 1:
		m := l[0]
		for _, x := range l {
			if x < m {
				m = x
			}
		}
		return m
	}
	return l[kind-2]
}

func bigSlot(r *Run, kind int) int {
	best, bi := uint64(0), 0
	for i, e := range r.W.E {
		if m := slotScore(alpha.ElemLimbs(e), kind); m > best {
			best, bi = m, i
		}
	}
	return bi
}

// climbExec executes calls from the empty world. It returns the run and the
// first armed violation, if any.
func climbExec(calls []Call, st *Stats, env *Env) (*Run, *Violation) {
	r := NewRun("C09", 0, 0, climbNE, Opts{}, st)
	r.Known = env.Known
	r.PkgSnap = env.PkgSnap
	for _, c := range calls {
		if v := r.Step(c); v != nil {
			return r, v
		}
		if r.Foreign != nil {
			break
		}
	}
	return r, nil
}

func climbExploit(big, big2 int) []Call {
	// scratch receivers: slots that are neither big nor big2
	var free []int
	for i := 0; i < climbNE && len(free) < 3; i++ {
		if i != big && i != big2 {
			free = append(free, i)
		}
	}
	a, b, c := free[0], free[1], free[2]
	return []Call{
		{Op: "Element.Multiply", R: a, E: []int{big, big}},
		{Op: "Element.Multiply", R: a, E: []int{big, big2}},
		{Op: "Element.Multiply", R: a, E: []int{big2, big}},
		{Op: "Element.Square", R: a, E: []int{big}},
		{Op: "Element.Square", R: a, E: []int{big2}},
		{Op: "Element.Mult32", R: a, E: []int{big}, U: 0xffffffff},
		{Op: "Element.Mult32", R: b, E: []int{a}, U: 0xffffffff},
		{Op: "Element.Multiply", R: c, E: []int{b, big}},
		{Op: "Element.Square", R: c, E: []int{b}},
		{Op: "Element.Add", R: a, E: []int{big, big}},
		{Op: "Element.Add", R: b, E: []int{a, a}},
		{Op: "Element.Subtract", R: a, E: []int{big, big2}},
		{Op: "Element.Subtract", R: a, E: []int{big2, big}},
		{Op: "Element.Subtract", R: a, E: []int{big, big}},
		{Op: "Element.Zero", R: c},
		{Op: "Element.Subtract", R: a, E: []int{c, big}},
		{Op: "Element.Negate", R: a, E: []int{big}},
		{Op: "Element.Negate", R: b, E: []int{a}},
		{Op: "Element.Absolute", R: a, E: []int{big}},
		{Op: "Element.Invert", R: a, E: []int{big}},
		{Op: "Element.Pow22523", R: a, E: []int{big}},
		{Op: "Element.SqrtRatio", R: a, E: []int{big, big2}},
		{Op: "Element.Bytes", R: big},
		{Op: "Element.Equal", R: big, E: []int{big2}},
		{Op: "Element.IsNegative", R: big},
		// in place, last: the big representations are consumed
		{Op: "Element.Multiply", R: big, E: []int{big, big}},
		{Op: "Element.Mult32", R: big2, E: []int{big2}, U: 0xffffffff},
		{Op: "Element.Square", R: big2, E: []int{big2}},
	}
}

// ClimbRun is run idx of C09 in climb mode.
func ClimbRun(rng *prng.Rand, st *Stats, env *Env, res *RunResult, base uint64) {
	gens := 8 + rng.Intn(13)
	cands := 3 + rng.Intn(2)
	kind := rng.Intn(7)
	st.Inc(fmt.Sprintf("probe/climb_objective_%d", kind))
	cur := climbSeedCalls(rng)
	st.Inc("probe/climb_runs")
	finish := func(r *Run, v *Violation) {
		res.Violation = v
		finishResult(r, res, base, env)
	}
	r, v := climbExec(cur, st, env)
	if v != nil || r.Foreign != nil {
		finish(r, v)
		return
	}
	curMax, curSum := climbFitness(r, kind)
	big := bigSlot(r, kind)
	for g := 0; g < gens && len(cur) < 90; g++ {
		var best []Call
		var bestMax, bestSum uint64
		bestBig := big
		for k := 0; k < cands; k++ {
			n := 1 + rng.Intn(3)
			cand := append([]Call{}, cur...)
			for j := 0; j < n; j++ {
				cand = append(cand, climbStep(rng, big))
			}
			cr, cv := climbExec(cand, st, env)
			st.Inc("probe/climb_candidates_executed")
			if cv != nil || cr.Foreign != nil {
				finish(cr, cv)
				return
			}
			m, s := climbFitness(cr, kind)
			if best == nil || m > bestMax || (m == bestMax && s > bestSum) {
				best, bestMax, bestSum, bestBig = cand, m, s, bigSlot(cr, kind)
			}
		}
		// accept improvements and plateaus; accept a worse candidate now and then
		if bestMax > curMax || (bestMax == curMax && bestSum >= curSum) || rng.Bool(0.08) {
			cur, curMax, curSum, big = best, bestMax, bestSum, bestBig
		}
	}
	// second biggest slot
	r, v = climbExec(cur, st, env)
	if v != nil || r.Foreign != nil {
		finish(r, v)
		return
	}
	big = bigSlot(r, kind)
	big2, m2 := (big+1)%climbNE, uint64(0)
	for i, e := range r.W.E {
		if i == big {
			continue
		}
		if m := slotScore(alpha.ElemLimbs(e), kind); m >= m2 {
			m2, big2 = m, i
		}
	}
	bucket := "at_most_2^51"
	if curMax > 1<<51 {
		switch n := bits.Len64(curMax - (1 << 51)); {
		case n <= 16:
			bucket = "2^51+(0,2^16)"
		case n <= 32:
			bucket = "2^51+[2^16,2^32)"
		case n <= 38:
			bucket = "2^51+[2^32,2^38)"
		default:
			bucket = "2^51+2^38_or_more"
		}
	}
	st.Inc(fmt.Sprintf("observed/climb_objective_%d_reached/%s", kind, bucket))
	final := append(append([]Call{}, cur...), climbExploit(big, big2)...)
	// the recorded run: hashes, trace and statistics of the final history
	r, v = climbExec(final, st, env)
	finish(r, v)
}
