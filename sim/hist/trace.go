package hist

import (
	"encoding/hex"
	"encoding/json"
	"fmt"
)

// Hex is a byte slice that marshals as a hex string.
type Hex []byte

func (h Hex) MarshalJSON() ([]byte, error) { return json.Marshal(hex.EncodeToString(h)) }
func (h *Hex) UnmarshalJSON(b []byte) error {
	var s string
	if err := json.Unmarshal(b, &s); err != nil {
		return err
	}
	v, err := hex.DecodeString(s)
	if err != nil {
		return err
	}
	*h = v
	return nil
}

// Call is one step of a trace: an operation with explicit operands. A trace
// is executed literally; no random choice is involved in replay.
type Call struct {
	Op string `json:"op"`
	R  int    `json:"r"`           // receiver slot (pool of the receiver's kind)
	P  []int  `json:"p,omitempty"` // Point argument slots, signature order
	S  []int  `json:"s,omitempty"` // Scalar argument slots
	E  []int  `json:"e,omitempty"` // Element argument slots (ExtendedCoordinates: destinations)
	// byte input: literal B, or a nil slice, or the very slice returned earlier
	// (ledger entry BL-1)
	HasB bool `json:"hasb,omitempty"`
	B    Hex  `json:"b,omitempty"`
	BNil bool `json:"bnil,omitempty"`
	BL   int  `json:"bl,omitempty"`
	// the literal input is a sub-slice backing[BOff : BOff+len(B)] of a larger
	// caller buffer with BPad spare bytes of capacity behind it
	BOff int `json:"boff,omitempty"`
	BPad int `json:"bpad,omitempty"`
	// BW > 0: the caller buffer is not fresh but long-lived buffer BW of the run
	// (a caller that reuses one buffer for successive inputs): B is written into it
	// at BOff and stays there until the buffer's next use overwrites it
	BW int    `json:"bw,omitempty"`
	U  uint32 `json:"u,omitempty"`
	C  int    `json:"c,omitempty"`
	// pseudo-operations
	L    int    `json:"l,omitempty"`    // ledger / record index
	Mode uint64 `json:"mode,omitempty"` // scribble mode and pattern
	// annotation only (counting); oracles derive everything from the state
	Fault string `json:"fault,omitempty"`
}

func (c *Call) String() string {
	b, _ := json.Marshal(c)
	return string(b)
}

// Trace is a self-contained, replayable run.
type Trace struct {
	Kind   string `json:"kind"` // "hist"
	Prop   string `json:"property"`
	Seed   uint64 `json:"seed"`
	RunIdx uint64 `json:"run_index"`
	NP     int    `json:"np"`
	NS     int    `json:"ns"`
	NE     int    `json:"ne"`
	Opts   Opts   `json:"opts"`
	Calls  []Call `json:"calls"`
	// what the run ended with when it was recorded
	Violation *Violation `json:"violation,omitempty"`
	Build     string     `json:"build,omitempty"` // "default" or "purego" (informational)
	// Procs is the GOMAXPROCS setting of the process that recorded the run (a
	// replay uses the same one: environment-selected code paths, per-P pools)
	Procs int `json:"gomaxprocs,omitempty"`
	// Prelude: runs that were executed earlier in the same OS process. They
	// are only kept in a replay file when the violation does not reproduce
	// from a cold process, i.e. when it depends on package state left behind
	// by earlier calls.
	Prelude []*Trace `json:"prelude,omitempty"`
	Note    string   `json:"note,omitempty"`
}

// Opts are the oracle switches of a run that are not derivable from Prop.
type Opts struct {
	EncodeAll bool `json:"encode_all,omitempty"` // C05: check every valid slot every step, not only changed ones
}

// Violation describes the first broken oracle of a run.
type Violation struct {
	Prop   string `json:"property"`
	Oracle string `json:"oracle"` // stable id of the oracle
	Key    string `json:"key"`    // oracle + operation + class: identity for known findings and minimisation
	Step   int    `json:"step"`
	Detail string `json:"detail"`
}

func (v *Violation) String() string {
	return fmt.Sprintf("property=%s oracle=%s step=%d key=%q %s", v.Prop, v.Oracle, v.Step, v.Key, v.Detail)
}
