package hist

import (
	"bytes"
	"crypto/sha256"
	"encoding/binary"
	"fmt"
	"hash"
	"math/big"
	"sort"
	"strings"
	"unsafe"

	"filippo.io/edwards25519"
	"filippo.io/edwards25519/field"

	"verifsim/alpha"
	"verifsim/ref"
)

// Stats are per-process counters (merged by the driver).
type Stats struct {
	C       map[string]int64 `json:"counters"`
	MaxLimb uint64           `json:"max_limb"`
	// Cov holds coverage bitsets (merged by OR): which (position, digit) pairs of
	// the scalar recodings were exercised by checked scalar multiplications.
	Cov map[string][]byte `json:"cov,omitempty"`
}

// Cover sets bit i of the named coverage set of size n.
func (s *Stats) Cover(name string, n, i int) {
	if i < 0 || i >= n {
		return
	}
	if s.Cov == nil {
		s.Cov = map[string][]byte{}
	}
	b := s.Cov[name]
	if b == nil {
		b = make([]byte, (n+7)/8)
		s.Cov[name] = b
	}
	b[i/8] |= 1 << (i % 8)
}

func NewStats() *Stats                 { return &Stats{C: map[string]int64{}} }
func (s *Stats) Inc(k string)          { s.C[k]++ }
func (s *Stats) Add(k string, n int64) { s.C[k] += n }
func (s *Stats) Merge(o *Stats) {
	for k, v := range o.C {
		s.C[k] += v
	}
	if o.MaxLimb > s.MaxLimb {
		s.MaxLimb = o.MaxLimb
	}
	for k, b := range o.Cov {
		if s.Cov == nil {
			s.Cov = map[string][]byte{}
		}
		if s.Cov[k] == nil {
			s.Cov[k] = make([]byte, len(b))
		}
		for i := range b {
			s.Cov[k][i] |= b[i]
		}
	}
}

// sentinels fill the spare capacity of the slices given to multi-scalar calls.
var (
	sentinelPoint  = new(edwards25519.Point)
	sentinelScalar = new(edwards25519.Scalar)
)

// basepointUsed remembers (per OS process) whether a lazily built table has
// been used yet: the first use in a process is the cold one.
var basepointUsed = map[string]bool{}

// KnownFinding is an entry of known_findings.txt that is tolerated (never a
// "fixed:" entry).
type KnownFinding struct {
	Prop string
	Key  string // prefix of Violation.Key
	Text string
}

// LedgerEntry is a value handed back by the library.
type LedgerEntry struct {
	Kind   string // "bytes", "elem", "point", "scalar"
	B      []byte
	E      *field.Element
	P      *edwards25519.Point
	S      *edwards25519.Scalar
	Step   int
	Origin string
}

func (l *LedgerEntry) rng() (uintptr, uintptr) {
	switch l.Kind {
	case "bytes":
		if len(l.B) == 0 {
			return 0, 0
		}
		return addrRange(unsafe.Pointer(&l.B[0]), uintptr(cap(l.B)))
	case "elem":
		return addrRange(unsafe.Pointer(l.E), alpha.ElemSize)
	case "point":
		return addrRange(unsafe.Pointer(l.P), alpha.PointSize)
	case "scalar":
		return addrRange(unsafe.Pointer(l.S), alpha.ScalarSize)
	}
	return 0, 0
}

func (l *LedgerEntry) raw() []byte {
	switch l.Kind {
	case "bytes":
		return append([]byte(nil), l.B...)
	case "elem":
		return append([]byte(nil), unsafe.Slice((*byte)(unsafe.Pointer(l.E)), alpha.ElemSize)...)
	case "point":
		return append([]byte(nil), unsafe.Slice((*byte)(unsafe.Pointer(l.P)), alpha.PointSize)...)
	case "scalar":
		return append([]byte(nil), unsafe.Slice((*byte)(unsafe.Pointer(l.S)), alpha.ScalarSize)...)
	}
	return nil
}

// Record remembers an executed call well enough to re-issue it (C19 probes).
type Record struct {
	Call   Call
	Step   int
	P      map[int]alpha.PointRaw
	S      map[int]alpha.ScalarRaw
	E      map[int]alpha.Limbs
	B      []byte
	OutDig string // digest of the outcome and the written values
}

type Run struct {
	Prop    string
	Opts    Opts
	W       *World
	Calls   []Call
	StepNo  int
	Stats   *Stats
	Ledger  []*LedgerEntry
	Records []*Record
	Known   []KnownFinding
	// KnownHits are the KNOWN-FINDING lines produced by this run.
	KnownHits []string
	// Foreign is the first violation of a property that is not armed; the run
	// stops there without an alarm (attribution rule A1).
	Foreign *Violation
	// PkgSnap returns a raw snapshot of the library's package-level variables,
	// when the build provides the in-package accessor (nil otherwise).
	PkgSnap func() []byte

	bufs   [][]byte  // long-lived caller byte buffers (Call.BW)
	hv, hr hash.Hash // value-level and raw-level event log hashes
	// transcript, when enabled, receives one line per step (C20 localisation).
	Transcript *[]string

	// Evals counts evaluations of oracles that belong to the armed property.
	Evals int
}

func (r *Run) ev(prop string) {
	if r.Prop == prop {
		r.Evals++
	}
}

func NewRun(prop string, nP, nS, nE int, opts Opts, st *Stats) *Run {
	resetEntropy()
	r := &Run{Prop: prop, Opts: opts, W: NewWorld(nP, nS, nE), Stats: st, hv: sha256.New(), hr: sha256.New()}
	fmt.Fprintf(r.hv, "world %d %d %d\n", nP, nS, nE)
	fmt.Fprintf(r.hr, "world %d %d %d\n", nP, nS, nE)
	return r
}

func (r *Run) ValueHash() string { return fmt.Sprintf("%x", r.hv.Sum(nil)[:16]) }
func (r *Run) RawHash() string   { return fmt.Sprintf("%x", r.hr.Sum(nil)[:16]) }

func (r *Run) armed(p string) bool { return r.Prop == p }

// viol routes a violation: armed -> returned (unless a known finding), else
// recorded as foreign.
func (r *Run) viol(prop, oracle, key, detail string) *Violation {
	return &Violation{Prop: prop, Oracle: oracle, Key: oracle + "/" + key, Step: r.StepNo, Detail: detail}
}

func inRange(idx []int, n int) bool {
	for _, i := range idx {
		if i < 0 || i >= n {
			return false
		}
	}
	return true
}

// resolve maps a call onto the world's slots (the aliased layout).
func (r *Run) resolve(op *OpDesc, c *Call) *Operands {
	o := &Operands{U: c.U, C: c.C}
	w := r.W
	switch op.Recv {
	case KPoint:
		if !inRange([]int{c.R}, len(w.P)) {
			return nil
		}
		o.RP = w.P[c.R]
	case KScalar:
		if !inRange([]int{c.R}, len(w.S)) {
			return nil
		}
		o.RS = w.S[c.R]
	case KElem:
		if !inRange([]int{c.R}, len(w.E)) {
			return nil
		}
		o.RE = w.E[c.R]
	}
	if !op.Multi && (len(c.P) != op.NP || len(c.S) != op.NS) {
		return nil
	}
	if !op.OutElems && len(c.E) != op.NE {
		return nil
	}
	if op.OutElems && len(c.E) != 0 && len(c.E) != 4 {
		return nil
	}
	if !inRange(c.P, len(w.P)) || !inRange(c.S, len(w.S)) || !inRange(c.E, len(w.E)) {
		return nil
	}
	if op.Multi {
		// the slices handed to a multi-scalar call are windows with spare capacity
		// (sentinel entries behind the window) in every second call, and nil
		// rather than empty for zero terms in every second call
		pad := 0
		if r.StepNo%2 == 0 {
			pad = 3
		}
		if len(c.P) > 0 || r.StepNo%2 == 0 {
			bp := make([]*edwards25519.Point, len(c.P)+pad)
			for k, i := range c.P {
				bp[k] = w.P[i]
			}
			for k := len(c.P); k < len(bp); k++ {
				bp[k] = sentinelPoint
			}
			o.AP = bp[:len(c.P)]
		}
		if len(c.S) > 0 || r.StepNo%2 == 0 {
			bs := make([]*edwards25519.Scalar, len(c.S)+pad)
			for k, i := range c.S {
				bs[k] = w.S[i]
			}
			for k := len(c.S); k < len(bs); k++ {
				bs[k] = sentinelScalar
			}
			o.AS = bs[:len(c.S)]
		}
	} else {
		for _, i := range c.P {
			o.AP = append(o.AP, w.P[i])
		}
		for _, i := range c.S {
			o.AS = append(o.AS, w.S[i])
		}
	}
	if !op.OutElems {
		for _, i := range c.E {
			o.AE = append(o.AE, w.E[i])
		}
	}
	if op.Bytes {
		switch {
		case c.BNil:
			o.B = nil
		case c.BL > 0:
			if c.BL-1 >= len(r.Ledger) || r.Ledger[c.BL-1].Kind != "bytes" {
				return nil
			}
			o.B = r.Ledger[c.BL-1].B
			o.Backing = o.B[:cap(o.B)]
		default:
			off, pad := c.BOff, c.BPad
			if off < 0 || off > 1<<12 {
				off = 0
			}
			if pad < 0 || pad > 1<<12 {
				pad = 0
			}
			var backing []byte
			if c.BW > 0 {
				// long-lived caller buffer, reused from call to call
				if r.bufs == nil {
					r.bufs = make([][]byte, 3)
				}
				k := (c.BW - 1) % len(r.bufs)
				if need := off + len(c.B) + pad; len(r.bufs[k]) < need {
					if need < 512 {
						need = 512
					}
					nb := make([]byte, need)
					for i := range nb {
						nb[i] = 0x5A ^ byte(i*11)
					}
					copy(nb, r.bufs[k])
					r.bufs[k] = nb
				}
				backing = r.bufs[k]
				r.Stats.Inc("fault/reused-caller-buffer")
			} else {
				backing = make([]byte, off+len(c.B)+pad)
				for i := range backing {
					backing[i] = 0xA5 ^ byte(i*7)
				}
			}
			copy(backing[off:], c.B)
			o.B = backing[off : off+len(c.B)]
			o.Backing = backing
		}
	}
	return o
}

// resolveDistinct builds the distinct-storage layout: every operand
// occurrence is a private bit-copy of the pre-state value.
func (r *Run) resolveDistinct(op *OpDesc, c *Call, pre *Snap, aliased *Operands) *Operands {
	o := &Operands{U: c.U, C: c.C}
	switch op.Recv {
	case KPoint:
		o.RP = newPointRaw(pre.P[c.R])
	case KScalar:
		o.RS = newScalarRaw(pre.S[c.R])
	case KElem:
		o.RE = newElemRaw(pre.E[c.R])
	}
	for _, i := range c.P {
		o.AP = append(o.AP, newPointRaw(pre.P[i]))
	}
	for _, i := range c.S {
		o.AS = append(o.AS, newScalarRaw(pre.S[i]))
	}
	if !op.OutElems {
		for _, i := range c.E {
			o.AE = append(o.AE, newElemRaw(pre.E[i]))
		}
	}
	if op.Bytes && aliased.B != nil {
		o.Backing = append([]byte{}, aliased.Backing...)
		off := len(aliased.Backing) - cap(aliased.B)
		o.B = o.Backing[off : off+len(aliased.B)]
	}
	return o
}

// hasAliasing reports whether any storage is shared among the pointer
// operands of the call (receiver included).
func hasAliasing(op *OpDesc, c *Call) bool {
	dup := func(recv Kind, k Kind, idx []int) bool {
		seen := map[int]bool{}
		if recv == k {
			seen[c.R] = true
		}
		for _, i := range idx {
			if seen[i] {
				return true
			}
			seen[i] = true
		}
		return false
	}
	if dup(op.Recv, KPoint, c.P) || dup(op.Recv, KScalar, c.S) {
		return true
	}
	if !op.OutElems && dup(op.Recv, KElem, c.E) {
		return true
	}
	return false
}

func pointValid(raw alpha.PointRaw) (alpha.PV, string) {
	pv := alpha.PointVal(raw)
	return pv, pv.Why()
}

func affOf(raw alpha.PointRaw) ref.Aff {
	x, y := alpha.PointVal(raw).Affine()
	return ref.Aff{X: x, Y: y}
}

func limbsOK(l alpha.Limbs) bool { return l.Max() < 1<<52 }

// valueDigestPoint is a representation-independent description of a point slot.
func valueDigestPoint(raw alpha.PointRaw) string {
	if raw.GuardedZero() {
		return "P:zero"
	}
	pv, why := pointValid(raw)
	if why != "" {
		return "P:invalid(" + why + ")"
	}
	x, y := pv.Affine()
	e := alpha.Encode(x, y)
	return fmt.Sprintf("P:%x/%v", e[:], limbsOK(raw.X) && limbsOK(raw.Y) && limbsOK(raw.Z) && limbsOK(raw.T))
}

func valueDigestElem(l alpha.Limbs) string {
	return fmt.Sprintf("E:%x/%v", alpha.ElemVal(l).Bytes(), limbsOK(l))
}

func valueDigestScalar(s alpha.ScalarRaw) string {
	return fmt.Sprintf("S:%x", alpha.ScalarVal(s).Bytes())
}

func errStr(e error) string {
	if e == nil {
		return "<nil>"
	}
	return "err:" + e.Error()
}

// Step executes one call on the world and evaluates the oracles. It returns
// the first armed violation (nil if none). When it returns non-nil, or when
// r.Foreign is set, the run must stop.
func (r *Run) Step(c Call) *Violation {
	r.StepNo = len(r.Calls)
	r.Calls = append(r.Calls, c)
	op := opIndex[c.Op]
	if op == nil {
		fmt.Fprintf(r.hv, "%d unknown-op\n", r.StepNo)
		return nil
	}
	var vs []*Violation
	if op.Pseudo {
		vs = r.execPseudo(op, &c)
	} else {
		vs = r.execLib(op, &c)
	}
	return r.route(vs)
}

// route applies A1/A3: first armed violation wins; known findings are
// quarantined by the caller of execLib (which restored the world already).
func (r *Run) route(vs []*Violation) *Violation {
	var armed *Violation
	for _, v := range vs {
		if v.Prop == r.Prop {
			if armed == nil {
				armed = v
			}
		}
	}
	if armed != nil {
		return armed
	}
	if len(vs) > 0 && r.Foreign == nil {
		r.Foreign = vs[0]
	}
	return nil
}

func (r *Run) isKnown(v *Violation) *KnownFinding {
	for i := range r.Known {
		k := &r.Known[i]
		if k.Prop == v.Prop && strings.HasPrefix(v.Key, k.Key) {
			return k
		}
	}
	return nil
}

func (r *Run) execLib(op *OpDesc, c *Call) []*Violation {
	w := r.W
	st := r.Stats
	ops := r.resolve(op, c)
	if ops == nil {
		st.Inc("skipped_steps")
		fmt.Fprintf(r.hv, "%d skip\n", r.StepNo)
		fmt.Fprintf(r.hr, "%d skip\n", r.StepNo)
		return nil
	}
	st.Inc("op/" + op.Name)
	if c.Fault != "" {
		st.Inc("fault_planned/" + c.Fault)
	}
	pre := w.Snapshot()
	var bPre []byte
	if ops.B != nil {
		bPre = append([]byte{}, ops.Backing...)
		if cap(ops.B) > len(ops.B) {
			st.Inc("probe/byte_input_with_spare_capacity")
		}
	}
	var ledgerPre [][]byte
	if r.armed("C19") {
		for _, l := range r.Ledger {
			ledgerPre = append(ledgerPre, l.raw())
		}
	}

	// --- classify the pre-state ---
	misuse := ""
	if op.Multi && len(c.S) != len(c.P) {
		misuse = "len"
	}
	inputsValid := true
	if op.Recv == KPoint || op.NP > 0 || op.Multi {
		chk := func(pos string, raw alpha.PointRaw) {
			if raw.GuardedZero() {
				if op.Name != "Point.Set" {
					if misuse == "" {
						misuse = "uninit@" + pos
					}
				}
				inputsValid = false
				return
			}
			if _, why := pointValid(raw); why != "" {
				inputsValid = false
			}
		}
		if op.RecvInput && op.Recv == KPoint {
			chk("recv", pre.P[c.R])
		}
		for j, i := range c.P {
			chk(fmt.Sprintf("arg%d", j), pre.P[i])
		}
	}
	scalarsOK := true
	for _, i := range c.S {
		if !alpha.ScalarMontCanonical(pre.S[i]) {
			scalarsOK = false
		}
	}
	if op.Recv == KScalar && op.RecvInput && !alpha.ScalarMontCanonical(pre.S[c.R]) {
		scalarsOK = false
	}
	recvZero := op.Recv == KPoint && pre.P[c.R].GuardedZero() && !op.Dynamic
	if recvZero && op.Writes {
		st.Inc("probe/zero_value_receiver")
		if misuse == "" {
			r.ev("C15")
		}
	}

	// --- C11 differential twin on private copies (before touching the world) ---
	var twin *Operands
	var twinOut Outcome
	doDiff := r.armed("C11") && misuse == "" && hasAliasing(op, c) && !op.Dynamic
	// Which of the two calls runs first alternates from step to step: whichever
	// runs first finds value-keyed caches cold, and an aliasing bug on the cold path
	// of an operation must not be masked by a twin that has always warmed it.
	twinFirst := r.StepNo%2 == 1
	if doDiff {
		twin = r.resolveDistinct(op, c, pre, ops)
		if twinFirst {
			twinOut = op.run(twin)
		}
	}

	// --- execute on the world ---
	var sliceHdrS []*edwards25519.Scalar
	var sliceHdrP []*edwards25519.Point
	if op.Multi {
		// the whole backing arrays, spare capacity included
		sliceHdrS = append(sliceHdrS, ops.AS[:cap(ops.AS)]...)
		sliceHdrP = append(sliceHdrP, ops.AP[:cap(ops.AP)]...)
		if cap(ops.AP) > len(ops.AP) {
			st.Inc("probe/multi_slices_with_spare_capacity")
		}
		if ops.AP == nil {
			st.Inc("probe/multi_nil_slices")
		}
	}
	out := op.run(ops)
	if doDiff && !twinFirst {
		twinOut = op.run(twin)
	}

	var vs []*Violation
	add := func(v *Violation) { vs = append(vs, v) }

	// --- misuse / panics ---
	if misuse != "" {
		r.ev("C15")
		if misuse == "len" {
			st.Inc("fault/misuse/len")
			st.Inc(fmt.Sprintf("site/misuse/%s/len(scalars)=%d,len(points)=%d", op.Name, len(c.S), len(c.P)))
		} else {
			st.Inc("fault/misuse/uninit")
			rc := ""
			if op.Recv == KPoint && !op.RecvInput {
				for _, i := range c.P {
					if i == c.R {
						rc = ",recv-aliased"
					}
				}
			}
			st.Inc("site/misuse/" + op.Name + "/" + misuse + rc)
		}
		if !out.Panicked && op.Dynamic && (r.copyLike(op, c, pre) || r.zeroArgsOverwritten(op, c, pre)) {
			// an API addition that turned out to be plain copying here (exempt, like Set)
			st.Inc("observed/dynamic_op_copy_like/" + op.Name)
		} else if !out.Panicked {
			add(r.viol("C15", "misuse-not-loud", op.Name+"/"+misuse,
				fmt.Sprintf("%s with %s returned normally instead of panicking", op.Name, misuse)))
		} else {
			st.Inc("observed/misuse_panic")
		}
	} else if out.Panicked {
		st.Inc("observed/unexpected_panic")
		if inputsValid && scalarsOK {
			attributed := false
			if recvZero && op.Writes && !op.RecvInput {
				// is the zero-value receiver the reason? retry with an initialised one
				t := r.resolveDistinct(op, c, pre, ops)
				t.RP = edwards25519.NewIdentityPoint()
				if o2 := op.run(t); !o2.Panicked {
					add(r.viol("C15", "pure-receiver-rejected", op.Name,
						fmt.Sprintf("%s panicked (%q) on a zero-value pure receiver with valid inputs", op.Name, out.PanicMsg)))
					attributed = true
				}
			}
			if !attributed {
				switch {
				case op.ScalarMult:
					add(r.viol("C01", "panic", op.Name, fmt.Sprintf("%s panicked on valid operands: %q", op.Name, out.PanicMsg)))
				case op.FieldNine:
					add(r.viol("C09", "panic", op.Name, fmt.Sprintf("%s panicked: %q", op.Name, out.PanicMsg)))
				default:
					add(r.viol("--", "panic", op.Name, fmt.Sprintf("%s panicked on valid operands: %q", op.Name, out.PanicMsg)))
				}
			}
		}
	}
	if out.Panicked {
		// C14: a setter that blew up must not have half-written the receiver
		if op.Fallible && misuse == "" {
			if !r.recvUnchanged(op, c, pre) {
				add(r.viol("C14", "receiver-modified-by-failing-setter", op.Name+"/panic",
					fmt.Sprintf("%s panicked (%q) after modifying the receiver", op.Name, out.PanicMsg)))
			}
		}
		// nothing is demanded about the receiver after a panic: the simulated
		// caller discards it (restore), everything else must be untouched.
		if op.Dynamic {
			r.W.Restore(pre)
		} else {
			r.restoreWriteSet(op, c, pre)
		}
		vs = append(vs, r.frame(op, c, pre, ops, bPre, sliceHdrS, sliceHdrP)...)
		r.logStep(op, c, &out, pre)
		return r.finish(vs, pre)
	}

	// --- successful return (possibly with an error result) ---
	if op.Name == "Point.ScalarBaseMult" || op.Name == "Point.VarTimeDoubleScalarBaseMult" {
		if !basepointUsed[op.Name] {
			basepointUsed[op.Name] = true
			st.Inc("probe/cold_first_use_of_lazy_table/" + op.Name)
		}
	}
	recvPtr := ops.recvPtr()
	failed := op.Fallible && out.Err != nil
	if op.Fallible {
		r.ev("C14")
		if failed {
			st.Inc("observed/setter_error/" + op.Name)
			if c.Fault != "" {
				st.Inc("fault/" + c.Fault + "/" + op.Name)
			}
			rcls := "used"
			if recvZero {
				rcls = "zero"
			}
			lcls := ""
			if op.Bytes {
				lcls = fmt.Sprintf("/len=%d", len(ops.B))
				if ops.B == nil {
					lcls = "/nil"
				}
			}
			st.Inc("site/reject/" + op.Name + lcls + "/recv=" + rcls)
			if out.Ret != nil {
				add(r.viol("C14", "error-with-non-nil-result", op.Name, op.Name+" returned an error together with a non-nil pointer"))
			}
			if !r.recvUnchanged(op, c, pre) {
				add(r.viol("C14", "receiver-modified-by-failing-setter", op.Name+"/error",
					fmt.Sprintf("%s returned error %q but the receiver changed", op.Name, out.Err)))
			}
		} else {
			st.Inc("observed/setter_ok/" + op.Name)
			if out.Ret != recvPtr {
				add(r.viol("C14", "success-does-not-return-receiver", op.Name, op.Name+" succeeded but did not return its receiver"))
			}
		}
		if ops.B != nil && !bytes.Equal(ops.Backing, bPre) {
			add(r.viol("C14", "setter-modified-input", op.Name, op.Name+" modified its input byte slice (or the caller's buffer around it)"))
		}
	} else if out.HasRet && !op.Ctor && out.Ret != recvPtr {
		prop := "--"
		if op.ScalarMult {
			prop = "C01"
		}
		add(r.viol(prop, "does-not-return-receiver", op.Name, op.Name+" did not return its receiver"))
	}

	// --- constructors and coordinate export: harness copies the results into slots ---
	if op.Ctor {
		if out.Ret == nil {
			add(r.viol("--", "ctor-nil", op.Name, "constructor returned nil"))
		} else if op.Recv == KPoint {
			p := (*edwards25519.Point)(out.Ret)
			r.ledgerAdd(&LedgerEntry{Kind: "point", P: p, Origin: op.Name}, &vs)
			setPointRaw(w.P[c.R], alpha.PointLimbs(p))
		} else {
			s := (*edwards25519.Scalar)(out.Ret)
			r.ledgerAdd(&LedgerEntry{Kind: "scalar", S: s, Origin: op.Name}, &vs)
			setScalarRaw(w.S[c.R], alpha.ScalarLimbs(s))
		}
	}
	if op.OutElems && len(out.Elems) == 4 {
		for k, e := range out.Elems {
			if e == nil {
				add(r.viol("--", "nil-coordinate", op.Name, "ExtendedCoordinates returned a nil pointer"))
				continue
			}
			r.ledgerAdd(&LedgerEntry{Kind: "elem", E: e, Origin: fmt.Sprintf("%s[%d] of P%d", op.Name, k, c.R)}, &vs)
			if len(c.E) == 4 {
				setElemRaw(w.E[c.E[k]], alpha.ElemLimbs(e))
			}
		}
	}
	if out.Bytes != nil {
		r.ledgerAdd(&LedgerEntry{Kind: "bytes", B: out.Bytes, Origin: fmt.Sprintf("%s of slot %d", op.Name, c.R)}, &vs)
	}

	// --- frame invariant (C11) ---
	fvs := r.frame(op, c, pre, ops, bPre, sliceHdrS, sliceHdrP)
	vs = append(vs, fvs...)
	if op.Fallible {
		// "no setter ever modifies its input": element arguments of SetExtendedCoordinates
		for _, fv := range fvs {
			if strings.Contains(fv.Detail, "argument") {
				add(r.viol("C14", "setter-modified-input", op.Name+"/argument", fv.Detail))
			}
		}
	}
	if r.armed("C19") {
		// a library call must not reach into values handed out earlier
		for i, l := range r.Ledger[:len(ledgerPre)] {
			if !bytes.Equal(l.raw(), ledgerPre[i]) {
				add(r.viol("C19", "returned-value-changed-by-later-call", op.Name+"/"+l.Kind,
					fmt.Sprintf("value returned by %s at step %d changed during %s", l.Origin, l.Step, op.Name)))
				break
			}
		}
	}

	// --- state invariants over the written slots: C12, C09 bound ---
	post := w.Snapshot()
	vs = append(vs, r.stateInvariants(op, c, pre, post, failed)...)

	// --- value oracles, only from a good pre-state (A2) ---
	{
		if op.ScalarMult && r.armed("C01") && inputsValid && scalarsOK {
			if v := r.oracleC01(op, c, pre, post); v != nil {
				add(v)
			}
		}
		if op.FieldNine && (r.armed("C09") || r.armed("C20")) {
			if v := r.oracleC09(op, c, pre, post); v != nil {
				if r.armed("C20") {
					// each build is anchored to GF(p), not only to the other build
					v.Prop = "C20"
				}
				add(v)
			}
		}
		if r.armed("C05") {
			vs = append(vs, r.oracleC05(op, c, &out, pre, post)...)
		}
		if doDiff {
			vs = append(vs, r.oracleC11diff(op, c, twin, &twinOut, &out, post)...)
		}
	}

	if r.armed("C19") {
		r.record(op, c, pre, ops, &out, post)
		// constructors must keep returning identity / base point / zero after
		// every library call, not only after mutations of returned values
		vs = append(vs, r.anchors("after "+op.Name)...)
	}
	r.logStepPost(op, c, &out, pre, post)
	r.probes(op, c, pre, post)
	return r.finish(vs, pre)
}

func onlyProps(vs []*Violation, props ...string) bool {
	for _, v := range vs {
		ok := false
		for _, p := range props {
			if v.Prop == p {
				ok = true
			}
		}
		if !ok {
			return false
		}
	}
	return true
}

// finish applies A3 (known findings are quarantined: report, restore, go on).
func (r *Run) finish(vs []*Violation, pre *Snap) []*Violation {
	if len(vs) == 0 {
		return nil
	}
	var rest []*Violation
	quarantined := false
	for _, v := range vs {
		if k := r.isKnown(v); k != nil {
			r.KnownHits = append(r.KnownHits, fmt.Sprintf("KNOWN-FINDING: property=%s %s [%s]", v.Prop, k.Text, v.Key))
			quarantined = true
			continue
		}
		rest = append(rest, v)
	}
	if quarantined && len(rest) == 0 {
		r.W.Restore(pre)
		return nil
	}
	return rest
}

func (r *Run) recvUnchanged(op *OpDesc, c *Call, pre *Snap) bool {
	switch op.Recv {
	case KPoint:
		return alpha.PointLimbs(r.W.P[c.R]) == pre.P[c.R]
	case KScalar:
		return alpha.ScalarLimbs(r.W.S[c.R]) == pre.S[c.R]
	case KElem:
		return alpha.ElemLimbs(r.W.E[c.R]) == pre.E[c.R]
	}
	return true
}

func (r *Run) restoreWriteSet(op *OpDesc, c *Call, pre *Snap) {
	switch op.Recv {
	case KPoint:
		setPointRaw(r.W.P[c.R], pre.P[c.R])
	case KScalar:
		setScalarRaw(r.W.S[c.R], pre.S[c.R])
	case KElem:
		setElemRaw(r.W.E[c.R], pre.E[c.R])
	}
	if op.SwapArg && len(c.E) > 0 {
		setElemRaw(r.W.E[c.E[0]], pre.E[c.E[0]])
	}
}

// frame checks that nothing outside the operation's contractual write set
// changed, bit for bit.
func (r *Run) frame(op *OpDesc, c *Call, pre *Snap, ops *Operands, bPre []byte, hS []*edwards25519.Scalar, hP []*edwards25519.Point) []*Violation {
	var vs []*Violation
	if op.Dynamic {
		return nil // an API addition may be Swap-like: what it is allowed to write is unknown
	}
	w := r.W
	wrP, wrS, wrE := -1, -1, map[int]bool{}
	if op.Writes || op.Ctor {
		switch op.Recv {
		case KPoint:
			wrP = c.R
		case KScalar:
			wrS = c.R
		case KElem:
			wrE[c.R] = true
		}
	}
	if op.SwapArg && len(c.E) > 0 {
		wrE[c.E[0]] = true
	}
	if op.OutElems {
		for _, i := range c.E {
			wrE[i] = true
		}
	}
	isArg := func(idx []int, i int) bool {
		for _, j := range idx {
			if j == i {
				return true
			}
		}
		return false
	}
	// The receiver of a read-only method is not one of the "non-receiver
	// arguments" the property wants bit-for-bit unchanged: an implementation may
	// renormalise it (same value, other representation). Its value must stay.
	// (Also when the same object is passed as an argument too, v.Equal(v): the
	// object is the receiver.)
	reader := !(op.Writes || op.Ctor)
	for i, p := range w.P {
		if i != wrP && alpha.PointLimbs(p) != pre.P[i] {
			if reader && op.Recv == KPoint && c.R == i {
				a, wa := pointValid(pre.P[i])
				b, wb := pointValid(alpha.PointLimbs(p))
				if wa == "" && wb == "" {
					ax, ay := a.Affine()
					bx, by := b.Affine()
					if ax.Cmp(bx) == 0 && ay.Cmp(by) == 0 {
						r.Stats.Inc("observed/reader_changed_representation_of_its_receiver/" + op.Name)
						continue
					}
				}
			}
			what := "an unrelated Point slot"
			if isArg(c.P, i) {
				what = "a non-receiver Point argument"
			} else if op.Recv == KPoint && c.R == i {
				what = "the value of the receiver of a read-only method"
			}
			vs = append(vs, r.viol("C11", "frame", op.Name+"/point", fmt.Sprintf("%s modified %s (P%d)", op.Name, what, i)))
			break
		}
	}
	for i, s := range w.S {
		if i != wrS && alpha.ScalarLimbs(s) != pre.S[i] {
			if reader && op.Recv == KScalar && c.R == i &&
				alpha.ScalarVal(alpha.ScalarLimbs(s)).Cmp(alpha.ScalarVal(pre.S[i])) == 0 {
				r.Stats.Inc("observed/reader_changed_representation_of_its_receiver/" + op.Name)
				continue
			}
			what := "an unrelated Scalar slot"
			if isArg(c.S, i) {
				what = "a non-receiver Scalar argument"
			} else if op.Recv == KScalar && c.R == i {
				what = "the value of the receiver of a read-only method"
			}
			vs = append(vs, r.viol("C11", "frame", op.Name+"/scalar", fmt.Sprintf("%s modified %s (S%d)", op.Name, what, i)))
			break
		}
	}
	for i, e := range w.E {
		if !wrE[i] && alpha.ElemLimbs(e) != pre.E[i] {
			if reader && op.Recv == KElem && c.R == i && limbsOK(alpha.ElemLimbs(e)) &&
				alpha.ElemVal(alpha.ElemLimbs(e)).Cmp(alpha.ElemVal(pre.E[i])) == 0 {
				r.Stats.Inc("observed/reader_changed_representation_of_its_receiver/" + op.Name)
				continue
			}
			what := "an unrelated Element slot"
			if isArg(c.E, i) {
				what = "a non-receiver Element argument"
			} else if op.Recv == KElem && c.R == i {
				what = "the value of the receiver of a read-only method"
			}
			vs = append(vs, r.viol("C11", "frame", op.Name+"/elem", fmt.Sprintf("%s modified %s (E%d)", op.Name, what, i)))
			break
		}
	}
	if ops.B != nil && !bytes.Equal(ops.Backing, bPre) {
		// (for fallible setters the caller reports it under C14 as well)
		vs = append(vs, r.viol("C11", "frame", op.Name+"/bytes", op.Name+" modified its input byte slice (or the caller's buffer around it)"))
	}
	if op.Multi {
		fullS, fullP := ops.AS[:cap(ops.AS)], ops.AP[:cap(ops.AP)]
		for i := range hS {
			if fullS[i] != hS[i] {
				vs = append(vs, r.viol("C11", "frame", op.Name+"/scalars-slice", op.Name+" modified the scalars slice"))
				break
			}
		}
		for i := range hP {
			if fullP[i] != hP[i] {
				vs = append(vs, r.viol("C11", "frame", op.Name+"/points-slice", op.Name+" modified the points slice"))
				break
			}
		}
	}
	return vs
}

// stateInvariants: C12 validity of every point slot that changed, C09 limb
// bound on every element that changed.
func (r *Run) stateInvariants(op *OpDesc, c *Call, pre, post *Snap, failed bool) []*Violation {
	var vs []*Violation
	st := r.Stats
	for i := range post.P {
		if post.P[i] == pre.P[i] {
			// an unchanged slot was validated when it was written - except the
			// receiver of a successful operation, which must hold a valid point now
			// even if the operation chose not to touch it
			if !(op.Recv == KPoint && op.Writes && !op.Dynamic && i == c.R && !failed && post.P[i].GuardedZero()) {
				continue
			}
		}
		raw := post.P[i]
		if op.Dynamic {
			// an API addition may move whole values around (swap, select): a slot that
			// now holds, bit for bit, what one of the operands held before is a copy
			copied := op.Recv == KPoint && raw == pre.P[c.R]
			for _, j := range c.P {
				copied = copied || raw == pre.P[j]
			}
			if copied {
				continue
			}
		}
		if failed && op.Recv == KPoint && i == c.R {
			continue // a setter that reported an error: the receiver is C14's business
		}
		r.ev("C12")
		st.Inc("oracle/C12")
		for _, l := range []alpha.Limbs{raw.X, raw.Y, raw.Z, raw.T} {
			if m := l.Max(); m > st.MaxLimb {
				st.MaxLimb = m
			}
			if !limbsOK(l) {
				vs = append(vs, r.viol("C09", "limb-bound", op.Name+"/point-coordinate",
					fmt.Sprintf("after %s a coordinate of P%d has a limb >= 2^52: %x", op.Name, i, l)))
			}
		}
		if raw.GuardedZero() {
			legit := false
			if op.Name == "Point.Set" && len(c.P) == 1 && pre.P[c.P[0]].GuardedZero() {
				legit = true
			}
			if !legit {
				vs = append(vs, r.viol("C12", "successful-op-left-uninitialised-value", op.Name,
					fmt.Sprintf("%s succeeded and left P%d as the zero (uninitialised) value", op.Name, i)))
			}
			continue
		}
		if _, why := pointValid(raw); why != "" {
			vs = append(vs, r.viol("C12", "invalid-point", op.Name+"/"+why,
				fmt.Sprintf("after %s, P%d is not a valid point: %s (X=%x Y=%x Z=%x T=%x)", op.Name, i, why, raw.X, raw.Y, raw.Z, raw.T)))
		}
	}
	for i := range post.E {
		if post.E[i] == pre.E[i] {
			continue
		}
		l := post.E[i]
		if m := l.Max(); m > st.MaxLimb {
			st.MaxLimb = m
		}
		if !limbsOK(l) {
			vs = append(vs, r.viol("C09", "limb-bound", op.Name,
				fmt.Sprintf("after %s, E%d has a limb >= 2^52: %x", op.Name, i, l)))
		}
		// representation classes reached (reach probes)
		if l.Max() >= 1<<51 {
			st.Inc("probe/elem_limb_ge_2^51")
		}
		iv := alpha.ElemInt(l)
		if iv.Cmp(alpha.P) >= 0 {
			st.Inc("probe/elem_value_ge_p_unreduced")
			if new(big.Int).Mod(iv, alpha.P).Sign() == 0 {
				st.Inc("probe/elem_zero_with_nonzero_limbs")
			}
		}
	}
	for i := range post.S {
		if post.S[i] != pre.S[i] && !alpha.ScalarMontCanonical(post.S[i]) {
			vs = append(vs, r.viol("--", "scalar-not-reduced", op.Name, fmt.Sprintf("after %s, S%d is not below l", op.Name, i)))
		}
	}
	return vs
}

// ---- C01 ----

func (r *Run) oracleC01(op *OpDesc, c *Call, pre, post *Snap) *Violation {
	st := r.Stats
	var ks []*big.Int
	var ps []ref.Aff
	B := ref.Base()
	switch op.Name {
	case "Point.ScalarBaseMult":
		ks = []*big.Int{alpha.ScalarVal(pre.S[c.S[0]])}
		ps = []ref.Aff{B}
	case "Point.ScalarMult":
		ks = []*big.Int{alpha.ScalarVal(pre.S[c.S[0]])}
		ps = []ref.Aff{affOf(pre.P[c.P[0]])}
	case "Point.VarTimeDoubleScalarBaseMult":
		ks = []*big.Int{alpha.ScalarVal(pre.S[c.S[0]]), alpha.ScalarVal(pre.S[c.S[1]])}
		ps = []ref.Aff{affOf(pre.P[c.P[0]]), B}
	default:
		for j := range c.S {
			ks = append(ks, alpha.ScalarVal(pre.S[c.S[j]]))
			ps = append(ps, affOf(pre.P[c.P[j]]))
		}
	}
	want := ref.MultiMul(ks, ps)
	st.Inc("oracle/C01")
	r.recodingCoverage(op, ks)
	r.ev("C01")
	// receiver class reach probes
	rc := "used"
	switch {
	case pre.P[c.R].GuardedZero():
		rc = "zero"
	case func() bool {
		for _, i := range c.P {
			if i == c.R {
				return true
			}
		}
		return false
	}():
		rc = "aliased"
	default:
		if pv, why := pointValid(pre.P[c.R]); why == "" {
			x, y := pv.Affine()
			if x.Sign() == 0 && y.Cmp(big.NewInt(1)) == 0 {
				rc = "identity"
			}
		}
	}
	st.Inc("probe/C01/" + op.Name + "/recv=" + rc)
	if op.Multi {
		n := len(c.S)
		switch {
		case n == 0:
			st.Inc("probe/C01/n=0")
		case n >= 3:
			st.Inc("probe/C01/n>=3")
		}
	}
	if r.StepNo%8 == 0 { // the probe costs a reference scalar multiplication: sampled
		for _, a := range ps {
			if !ref.ScalarMul(alpha.L, a).Equal(ref.Identity()) {
				st.Inc("probe/C01/input_with_torsion")
				break
			}
		}
	}
	for _, i := range c.P {
		if alpha.ElemVal(pre.P[i].Z).Cmp(big.NewInt(1)) != 0 {
			st.Inc("probe/C01/input_Z_ne_1")
			break
		}
	}
	got := post.P[c.R]
	if got.GuardedZero() {
		return r.viol("C01", "result-mismatch", op.Name+"/recv="+rc, op.Name+" left the receiver uninitialised")
	}
	pv, why := pointValid(got)
	if why != "" {
		return r.viol("C01", "result-mismatch", op.Name+"/recv="+rc,
			fmt.Sprintf("%s (receiver class %s, n=%d) produced an invalid point: %s", op.Name, rc, len(ks), why))
	}
	x, y := pv.Affine()
	if !(ref.Aff{X: x, Y: y}).Equal(want) {
		we := alpha.Encode(want.X, want.Y)
		ge := alpha.Encode(x, y)
		return r.viol("C01", "result-mismatch", op.Name+"/recv="+rc,
			fmt.Sprintf("%s (receiver class %s, n=%d): got point %x, reference sum is %x", op.Name, rc, len(ks), ge[:], we[:]))
	}
	return nil
}

// ---- C09 ----

func (r *Run) oracleC09(op *OpDesc, c *Call, pre, post *Snap) *Violation {
	r.Stats.Inc("oracle/C09")
	r.ev("C09")
	r.ev("C20")
	a := func(k int) *big.Int { return alpha.ElemVal(pre.E[c.E[k]]) }
	var want *big.Int
	switch op.Name {
	case "Element.Add":
		want = ref.FAdd(a(0), a(1))
	case "Element.Subtract":
		want = ref.FSub(a(0), a(1))
	case "Element.Negate":
		want = ref.FNeg(a(0))
	case "Element.Multiply":
		want = ref.FMul(a(0), a(1))
	case "Element.Square":
		want = ref.FMul(a(0), a(0))
	case "Element.Mult32":
		want = ref.FMul(a(0), new(big.Int).SetUint64(uint64(c.U)))
	case "Element.Invert":
		want = ref.FInv(a(0))
		if a(0).Sign() == 0 {
			r.Stats.Inc("probe/C09/invert_zero")
		}
	case "Element.Pow22523":
		want = ref.FPow(a(0), ref.Pow22523Exp)
	case "Element.Absolute":
		want = a(0)
		if want.Bit(0) == 1 {
			want = ref.FNeg(want)
		}
	default:
		return nil
	}
	got := alpha.ElemVal(post.E[c.R])
	if got.Cmp(want) != 0 {
		var in []string
		for _, i := range c.E {
			in = append(in, fmt.Sprintf("%x", pre.E[i]))
		}
		return r.viol("C09", "field-value", op.Name,
			fmt.Sprintf("%s: result value %x, GF(p) says %x; input limbs %v u32=%d", op.Name, got, want, in, c.U))
	}
	return nil
}

// ---- C05 ----

func (r *Run) checkEncoding(i int, raw alpha.PointRaw, what string) *Violation {
	pv, why := pointValid(raw)
	if why != "" {
		return nil
	}
	r.Stats.Inc("oracle/C05")
	r.ev("C05")
	x, y := pv.Affine()
	want := alpha.Encode(x, y)
	p := newPointRaw(raw)
	var got []byte
	func() {
		defer func() { recover() }()
		got = p.Bytes()
	}()
	if alpha.ElemVal(raw.Z).Cmp(big.NewInt(1)) != 0 {
		r.Stats.Inc("probe/C05/Z_ne_1")
	}
	if raw.X.Max() >= 1<<51 || raw.Y.Max() >= 1<<51 || raw.Z.Max() >= 1<<51 {
		r.Stats.Inc("probe/C05/coordinate_limb_ge_2^51")
	}
	if x.Sign() == 0 || y.Sign() == 0 {
		r.Stats.Inc("probe/C05/small_order_axis_point")
	}
	if !bytes.Equal(got, want[:]) {
		return r.viol("C05", "non-canonical-or-wrong-encoding", what,
			fmt.Sprintf("P%d: Bytes() = %x, canonical encoding of its own coordinates is %x (X=%x Y=%x Z=%x)", i, got, want[:], raw.X, raw.Y, raw.Z))
	}
	// round trip
	var q *edwards25519.Point
	var err error
	func() {
		defer func() {
			if x := recover(); x != nil {
				err = fmt.Errorf("panic: %v", x)
			}
		}()
		q, err = new(edwards25519.Point).SetBytes(got)
	}()
	if err != nil || q == nil {
		return r.viol("C05", "encoding-does-not-decode", what, fmt.Sprintf("P%d: SetBytes(Bytes()) failed: %v", i, err))
	}
	qraw := alpha.PointLimbs(q)
	qv, qwhy := pointValid(qraw)
	if qwhy != "" {
		return r.viol("C05", "round-trip", what, fmt.Sprintf("P%d: decoding %x gives an invalid point (%s)", i, got, qwhy))
	}
	qx, qy := qv.Affine()
	if qx.Cmp(x) != 0 || qy.Cmp(y) != 0 {
		return r.viol("C05", "round-trip", what, fmt.Sprintf("P%d: decoding its encoding %x gives a different point", i, got))
	}
	return nil
}

func (r *Run) oracleC05(op *OpDesc, c *Call, out *Outcome, pre, post *Snap) []*Violation {
	var vs []*Violation
	for i := range post.P {
		if !r.Opts.EncodeAll && post.P[i] == pre.P[i] {
			continue
		}
		if post.P[i].GuardedZero() {
			continue
		}
		if v := r.checkEncoding(i, post.P[i], "after/"+op.Name); v != nil {
			vs = append(vs, v)
			return vs
		}
	}
	if op.Name == "Point.Bytes" && out.Bytes != nil {
		if pv, why := pointValid(pre.P[c.R]); why == "" {
			x, y := pv.Affine()
			want := alpha.Encode(x, y)
			if !bytes.Equal(out.Bytes, want[:]) {
				vs = append(vs, r.viol("C05", "non-canonical-or-wrong-encoding", "call/Point.Bytes",
					fmt.Sprintf("P%d.Bytes() = %x, canonical is %x", c.R, out.Bytes, want[:])))
			}
		}
	}
	if op.Name == "Point.SetBytes" && out.Err == nil && c.HasB {
		// accepted input (possibly non-canonical): the decoded point must be the
		// point the input names: y = low 255 bits mod p, x of the requested parity
		in := c.B
		if len(in) == 32 {
			yb := append([]byte{}, in...)
			sign := uint(yb[31] >> 7)
			yb[31] &= 0x7f
			yv := alpha.FromLE(yb)
			noncanon := yv.Cmp(alpha.P) >= 0
			yv.Mod(yv, alpha.P)
			if pv, why := pointValid(post.P[c.R]); why == "" {
				x, y := pv.Affine()
				if noncanon || (x.Sign() == 0 && sign == 1) {
					r.Stats.Inc("probe/C05/accepted_noncanonical_input")
				}
				if y.Cmp(yv) != 0 || (x.Sign() != 0 && x.Bit(0) != sign) {
					vs = append(vs, r.viol("C05", "decode-of-accepted-input", "Point.SetBytes",
						fmt.Sprintf("SetBytes(%x) accepted but produced a different point", []byte(in))))
				}
			}
		}
	}
	return vs
}

// ---- C11 differential ----

func (r *Run) oracleC11diff(op *OpDesc, c *Call, twin *Operands, tout, out *Outcome, post *Snap) []*Violation {
	r.Stats.Inc("oracle/C11diff")
	r.ev("C11")
	r.Stats.Inc("oracle/C11diff/" + op.Name)
	r.Stats.Inc("fault/alias")
	r.Stats.Inc("site/alias/" + op.Name + "/" + aliasShape(op, c))
	var vs []*Violation
	bad := func(detail string) {
		vs = append(vs, r.viol("C11", "aliased-differs-from-distinct", op.Name+"/"+aliasShape(op, c), op.Name+" "+aliasShape(op, c)+": "+detail))
	}
	if tout.Panicked != out.Panicked {
		bad(fmt.Sprintf("panicked=%v with aliased operands, %v with distinct storage", out.Panicked, tout.Panicked))
		return vs
	}
	if (tout.Err == nil) != (out.Err == nil) {
		bad(fmt.Sprintf("error %v with aliased operands, %v with distinct storage", out.Err, tout.Err))
		return vs
	}
	if tout.HasInt && tout.Int != out.Int {
		bad(fmt.Sprintf("int result %d aliased vs %d distinct", out.Int, tout.Int))
	}
	if !bytes.Equal(tout.Bytes, out.Bytes) {
		bad(fmt.Sprintf("bytes result %x aliased vs %x distinct", out.Bytes, tout.Bytes))
	}
	if (out.Err != nil) || !(op.Writes) {
		return vs
	}
	switch op.Recv {
	case KPoint:
		a, b := valueDigestPoint(post.P[c.R]), valueDigestPoint(alpha.PointLimbs(twin.RP))
		if a != b {
			bad(fmt.Sprintf("receiver is %s with aliased operands but %s with distinct storage", a, b))
		}
	case KScalar:
		a, b := valueDigestScalar(post.S[c.R]), valueDigestScalar(alpha.ScalarLimbs(twin.RS))
		if a != b {
			bad(fmt.Sprintf("receiver is %s with aliased operands but %s with distinct storage", a, b))
		}
	case KElem:
		a, b := alpha.ElemVal(post.E[c.R]), alpha.ElemVal(alpha.ElemLimbs(twin.RE))
		if op.SwapArg && len(c.E) == 1 && c.E[0] == c.R {
			// Swap(v, v): distinct storage exchanges two equal values; same value expected
		}
		if a.Cmp(b) != 0 {
			bad(fmt.Sprintf("receiver value %x with aliased operands but %x with distinct storage", a, b))
		}
		if op.SwapArg && len(c.E) == 1 {
			a, b := alpha.ElemVal(post.E[c.E[0]]), alpha.ElemVal(alpha.ElemLimbs(twin.AE[0]))
			if a.Cmp(b) != 0 {
				bad(fmt.Sprintf("swapped argument value %x aliased vs %x distinct", a, b))
			}
		}
	}
	return vs
}

// aliasShape names the aliasing partition of a call, e.g. "R=P0,P1|S0=S1".
func aliasShape(op *OpDesc, c *Call) string {
	if op.Multi && len(c.P) > 6 {
		// long term lists: summarise instead of spelling out the partition
		var at []string
		for j, i := range c.P {
			if i == c.R {
				if len(at) < 3 {
					at = append(at, fmt.Sprint(j))
				}
			}
		}
		dp, ds := map[int]bool{}, map[int]bool{}
		for _, i := range c.P {
			dp[i] = true
		}
		for _, i := range c.S {
			ds[i] = true
		}
		bucket := "7..16"
		switch n := len(c.P); {
		case n > 512:
			bucket = ">512"
		case n > 256:
			bucket = "257..512"
		case n > 64:
			bucket = "65..256"
		case n > 33:
			bucket = "34..64"
		case n > 16:
			bucket = "17..33"
		}
		rp := "R-not-in-points"
		if len(at) > 0 {
			rp = "R=points[" + strings.Join(at, ",") + "..]"
			if len(c.P)-1-func() int {
				last := -1
				for j, i := range c.P {
					if i == c.R {
						last = j
					}
				}
				return last
			}() < 3 {
				rp = "R-in-tail"
			} else {
				rp = "R-in-points"
			}
		}
		return fmt.Sprintf("n=%s,%s,%d-distinct-points,%d-distinct-scalars", bucket, rp, minInt(len(dp), 9), minInt(len(ds), 9))
	}
	type occ struct {
		name string
		slot int
	}
	group := func(k Kind, idx []int, pfx string) string {
		var occs []occ
		if op.Recv == k {
			occs = append(occs, occ{"R", c.R})
		}
		for j, i := range idx {
			occs = append(occs, occ{fmt.Sprintf("%s%d", pfx, j), i})
		}
		bySlot := map[int][]string{}
		var order []int
		for _, o := range occs {
			if _, ok := bySlot[o.slot]; !ok {
				order = append(order, o.slot)
			}
			bySlot[o.slot] = append(bySlot[o.slot], o.name)
		}
		var parts []string
		for _, s := range order {
			if len(bySlot[s]) > 1 {
				parts = append(parts, strings.Join(bySlot[s], "="))
			}
		}
		return strings.Join(parts, ",")
	}
	var parts []string
	if g := group(KPoint, c.P, "p"); g != "" {
		parts = append(parts, g)
	}
	if g := group(KScalar, c.S, "s"); g != "" {
		parts = append(parts, g)
	}
	if !op.OutElems {
		if g := group(KElem, c.E, "e"); g != "" {
			parts = append(parts, g)
		}
	}
	if len(parts) == 0 {
		return "distinct"
	}
	return strings.Join(parts, "|")
}

func minInt(a, b int) int {
	if a < b {
		return a
	}
	return b
}

// ---- ledger (C19) ----

func (r *Run) ledgerAdd(l *LedgerEntry, vs *[]*Violation) {
	if !r.armed("C19") {
		if l.Kind == "bytes" {
			// byte results are still remembered so that BL references resolve
			l.Step = r.StepNo
			r.Ledger = append(r.Ledger, l)
		}
		return
	}
	l.Step = r.StepNo
	lo, hi := l.rng()
	if lo != 0 {
		for _, o := range r.Ledger {
			olo, ohi := o.rng()
			if olo != 0 && lo < ohi && olo < hi {
				*vs = append(*vs, r.viol("C19", "returned-values-share-memory", l.Kind,
					fmt.Sprintf("value returned by %s shares memory with the value returned by %s at step %d", l.Origin, o.Origin, o.Step)))
				break
			}
		}
		for _, rg := range r.W.slotRanges() {
			if lo < rg[1] && rg[0] < hi {
				*vs = append(*vs, r.viol("C19", "returned-value-inside-caller-slot", l.Kind,
					fmt.Sprintf("value returned by %s lies inside the storage of a caller-owned slot", l.Origin)))
				break
			}
		}
	}
	r.Stats.Inc("ledger/" + l.Kind)
	r.ev("C19")
	r.Ledger = append(r.Ledger, l)
}

func (r *Run) record(op *OpDesc, c *Call, pre *Snap, ops *Operands, out *Outcome, post *Snap) {
	rec := &Record{Call: *c, Step: r.StepNo, P: map[int]alpha.PointRaw{}, S: map[int]alpha.ScalarRaw{}, E: map[int]alpha.Limbs{}}
	switch op.Recv {
	case KPoint:
		rec.P[c.R] = pre.P[c.R]
	case KScalar:
		rec.S[c.R] = pre.S[c.R]
	case KElem:
		rec.E[c.R] = pre.E[c.R]
	}
	for _, i := range c.P {
		rec.P[i] = pre.P[i]
	}
	for _, i := range c.S {
		rec.S[i] = pre.S[i]
	}
	for _, i := range c.E {
		rec.E[i] = pre.E[i]
	}
	if ops.B != nil {
		rec.B = append([]byte{}, ops.B...)
	}
	rec.OutDig = r.outcomeDigest(op, c, out, func(k Kind, i int) string {
		switch k {
		case KPoint:
			return valueDigestPoint(post.P[i])
		case KScalar:
			return valueDigestScalar(post.S[i])
		default:
			return valueDigestElem(post.E[i])
		}
	})
	r.Records = append(r.Records, rec)
	if len(r.Records) > 256 {
		r.Records = r.Records[1:]
	}
}

// outcomeDigest describes results as values (representation independent).
func (r *Run) outcomeDigest(op *OpDesc, c *Call, out *Outcome, val func(Kind, int) string) string {
	var sb strings.Builder
	fmt.Fprintf(&sb, "panic=%v ", out.Panicked)
	if out.HasErr {
		sb.WriteString(errStr(out.Err) + " ")
	}
	if out.HasInt {
		fmt.Fprintf(&sb, "int=%d ", out.Int)
	}
	if out.Bytes != nil {
		fmt.Fprintf(&sb, "bytes=%x ", out.Bytes)
	}
	if op.OutElems {
		for _, e := range out.Elems {
			if e != nil {
				fmt.Fprintf(&sb, "%s ", valueDigestElem(alpha.ElemLimbs(e)))
			}
		}
	}
	if op.Writes || op.Ctor {
		fmt.Fprintf(&sb, "recv=%s ", val(op.Recv, c.R))
	}
	if op.SwapArg && len(c.E) == 1 {
		fmt.Fprintf(&sb, "arg=%s ", val(KElem, c.E[0]))
	}
	return sb.String()
}

func (r *Run) logStep(op *OpDesc, c *Call, out *Outcome, pre *Snap) {
	post := r.W.Snapshot()
	r.logStepPost(op, c, out, pre, post)
}

func (r *Run) logStepPost(op *OpDesc, c *Call, out *Outcome, pre, post *Snap) {
	dig := r.outcomeDigest(op, c, out, func(k Kind, i int) string {
		switch k {
		case KPoint:
			return valueDigestPoint(post.P[i])
		case KScalar:
			return valueDigestScalar(post.S[i])
		default:
			return valueDigestElem(post.E[i])
		}
	})
	line := fmt.Sprintf("%d %s -> %s", r.StepNo, c.String(), dig)
	r.ev("C20")
	r.hv.Write([]byte(line))
	r.hv.Write([]byte{'\n'})
	if r.Transcript != nil {
		*r.Transcript = append(*r.Transcript, line)
	}
	// raw log: full bits of the world after the step
	r.hr.Write([]byte(line))
	var buf [8]byte
	wr := func(v uint64) { binary.LittleEndian.PutUint64(buf[:], v); r.hr.Write(buf[:]) }
	for _, p := range post.P {
		for _, l := range [4]alpha.Limbs{p.X, p.Y, p.Z, p.T} {
			for _, x := range l {
				wr(x)
			}
		}
	}
	for _, s := range post.S {
		for _, x := range s {
			wr(x)
		}
	}
	for _, e := range post.E {
		for _, x := range e {
			wr(x)
		}
	}
}

// probes counts reach facts that are not tied to one oracle.
func (r *Run) probes(op *OpDesc, c *Call, pre, post *Snap) {
	if op.Recv == KPoint && op.Writes && !pre.P[c.R].GuardedZero() {
		r.Stats.Inc("probe/used_receiver")
	}
}

// sortedKeys is a helper for deterministic iteration.
func sortedKeys(m map[string]int64) []string {
	ks := make([]string, 0, len(m))
	for k := range m {
		ks = append(ks, k)
	}
	sort.Strings(ks)
	return ks
}

// ValueDigestPoint is the representation-independent description of a point
// (exported for the task scheduler's sequential-equivalence oracle).
func ValueDigestPoint(raw alpha.PointRaw) string { return valueDigestPoint(raw) }

// recodingCoverage records which (position, digit) pairs of the scalar
// recodings a checked scalar multiplication went through. The recodings are
// recomputed here from the integer value of the scalar (signed radix 16 with
// digits in [-8, 8); width-w non-adjacent form), not taken from the library.
func (r *Run) recodingCoverage(op *OpDesc, ks []*big.Int) {
	st := r.Stats
	radix16 := func(k *big.Int, name string) {
		carry := 0
		for i := 0; i < 64; i++ {
			d := int(new(big.Int).And(new(big.Int).Rsh(k, uint(4*i)), big.NewInt(15)).Int64()) + carry
			carry = 0
			if i < 63 && d >= 8 {
				d -= 16
				carry = 1
			}
			st.Cover(name, 64*17, i*17+(d+8))
		}
	}
	naf := func(k *big.Int, w uint, name string) {
		x := new(big.Int).Set(k)
		width := int64(1) << w
		for pos := 0; x.Sign() > 0 && pos < 256; pos++ {
			if x.Bit(0) == 1 {
				d := new(big.Int).And(x, big.NewInt(width-1)).Int64()
				if d >= width/2 {
					d -= width
				}
				x.Sub(x, big.NewInt(d))
				// odd digit d in (-width/2, width/2): index by (d + width/2) / 2... use d+width/2
				st.Cover(name, 256*int(width), pos*int(width)+int(d+width/2))
			}
			x.Rsh(x, 1)
		}
	}
	switch op.Name {
	case "Point.ScalarBaseMult":
		radix16(ks[0], "C01/ScalarBaseMult/radix16(pos,digit)")
	case "Point.ScalarMult":
		radix16(ks[0], "C01/ScalarMult/radix16(pos,digit)")
	case "Point.MultiScalarMult":
		for _, k := range ks {
			radix16(k, "C01/MultiScalarMult/radix16(pos,digit)")
		}
	case "Point.VarTimeDoubleScalarBaseMult":
		naf(ks[0], 5, "C01/VarTimeDoubleScalarBaseMult/naf5(pos,digit)")
		naf(ks[1], 8, "C01/VarTimeDoubleScalarBaseMult/naf8(pos,digit)")
	case "Point.VarTimeMultiScalarMult":
		for _, k := range ks {
			naf(k, 5, "C01/VarTimeMultiScalarMult/naf5(pos,digit)")
		}
	}
}

// copyLike reports whether, after a call of a dynamic operation, the receiver
// is bit-identical to its previous content or to the previous content of one
// of the same-typed arguments (plain copying / selection: exempt from C15).
func (r *Run) copyLike(op *OpDesc, c *Call, pre *Snap) bool {
	if op.Recv != KPoint {
		return true // no Point is produced from the zero value
	}
	now := alpha.PointLimbs(r.W.P[c.R])
	if now == pre.P[c.R] {
		return true
	}
	for _, i := range c.P {
		if now == pre.P[i] {
			return true
		}
	}
	return false
}

// zeroArgsOverwritten reports whether every zero-value Point argument of a
// call of a dynamic operation holds something else afterwards: such a
// parameter is a destination (a second result), not an input.
func (r *Run) zeroArgsOverwritten(op *OpDesc, c *Call, pre *Snap) bool {
	any := false
	for _, i := range c.P {
		if pre.P[i].GuardedZero() {
			if alpha.PointLimbs(r.W.P[i]) == pre.P[i] {
				return false
			}
			any = true
		}
	}
	return any
}
