// Package alpha is the observation channel of the simulator: it reads the raw
// memory of edwards25519 values through unsafe and turns it into mathematical
// values with math/big, without calling any code of the library under test.
// A reflect-based layout guard protects the unsafe reads.
package alpha

import (
	"fmt"
	"math/big"
	"reflect"
	"strings"
	"unsafe"

	"filippo.io/edwards25519"
	"filippo.io/edwards25519/field"
)

// Constants of the curve, written out here (not copied from the library).
var (
	P, _  = new(big.Int).SetString("57896044618658097711785492504343953926634992332820282019728792003956564819949", 10) // 2^255-19
	L, _  = new(big.Int).SetString("7237005577332262213973186563042994240857116359379907606001950938285454250989", 10)  // 2^252+27742317777372353535851937790883648493
	D     *big.Int                                                                                                      // -121665/121666 mod p
	RInvL *big.Int                                                                                                      // 2^-256 mod l
	one   = big.NewInt(1)
)

func init() {
	chk := new(big.Int).Lsh(one, 255)
	chk.Sub(chk, big.NewInt(19))
	if chk.Cmp(P) != 0 {
		panic("alpha: bad P")
	}
	c, _ := new(big.Int).SetString("27742317777372353535851937790883648493", 10)
	chk = new(big.Int).Lsh(one, 252)
	chk.Add(chk, c)
	if chk.Cmp(L) != 0 {
		panic("alpha: bad L")
	}
	inv := new(big.Int).ModInverse(big.NewInt(121666), P)
	D = new(big.Int).Mul(big.NewInt(-121665), inv)
	D.Mod(D, P)
	r := new(big.Int).Lsh(one, 256)
	RInvL = new(big.Int).ModInverse(r, L)
}

const (
	ElemSize   = 40
	ScalarSize = 32
)

// PointSize is the size of edwards25519.Point: four field elements, plus any
// pointer-free auxiliary fields the tree being checked may have added (set by
// Guard).
var PointSize uintptr = 4 * ElemSize

type Limbs [5]uint64

// PointRaw is the raw content of a Point: the limbs of its four coordinates
// and, when the tree's Point carries auxiliary fields (a cached encoding, a
// flag, ...), the bytes of everything else in the struct. Aux is opaque to the
// harness: it is copied along with the coordinates, compared bit for bit, and
// all-zero ("" is shorthand for all-zero) in points the harness builds itself.
type PointRaw struct {
	X, Y, Z, T Limbs
	Aux        string
}

// auxSpans are the byte ranges [lo, hi) of Point that are not coordinates.
var (
	auxSpans [][2]uintptr
	auxLen   int
)

// AuxLen reports how many bytes of auxiliary state a Point carries.
func AuxLen() int { return auxLen }

// simplePointers: pointer-free data, or plain data behind pointers and slices
// (a cached encoding behind a *[32]byte, a []byte). Such auxiliary state can
// still be carried along as opaque bytes - a copy shares what it points to,
// exactly like the Go assignment *q = *p - provided everything it ever pointed
// to is kept alive (see keepAlive) and the shallow-copy self-test passes.
func simplePointers(t reflect.Type) bool {
	if pointerFree(t) {
		return true
	}
	switch t.Kind() {
	case reflect.Ptr, reflect.Slice:
		return pointerFree(t.Elem())
	case reflect.Array:
		return simplePointers(t.Elem())
	case reflect.Struct:
		if t.PkgPath() == "sync" || t.PkgPath() == "sync/atomic" {
			return false
		}
		for i := 0; i < t.NumField(); i++ {
			if !simplePointers(t.Field(i).Type) {
				return false
			}
		}
		return true
	}
	return false
}

// auxHasPointers: the auxiliary bytes of a Point contain Go pointers.
var auxHasPointers bool

// keepAlive holds a typed copy of every distinct auxiliary state with pointers
// that the harness has read, so that what a raw snapshot points to can never
// be collected before the snapshot is written back into a Point.
var (
	keepAlive []edwards25519.Point
	keepSeen  = map[string]bool{}
)

func pointerFree(t reflect.Type) bool {
	switch t.Kind() {
	case reflect.Bool, reflect.Int, reflect.Int8, reflect.Int16, reflect.Int32, reflect.Int64,
		reflect.Uint, reflect.Uint8, reflect.Uint16, reflect.Uint32, reflect.Uint64, reflect.Uintptr,
		reflect.Float32, reflect.Float64, reflect.Complex64, reflect.Complex128:
		return true
	case reflect.Array:
		return t.Len() == 0 || pointerFree(t.Elem())
	case reflect.Struct:
		if t.PkgPath() == "sync" || t.PkgPath() == "sync/atomic" {
			return false
		}
		for i := 0; i < t.NumField(); i++ {
			if !pointerFree(t.Field(i).Type) {
				return false
			}
		}
		return true
	}
	return false
}

type ScalarRaw [4]uint64

var layoutOK bool

// Guard verifies by reflection that the memory layout assumed by the unsafe
// readers is the layout of the tree being built. It must be called (and must
// succeed) before any other function of this package is used.
func Guard() error {
	et := reflect.TypeOf(field.Element{})
	// five uint64 limbs at offsets 0, 8, ..., 32: a struct of five fields (whatever
	// they are called) or an array; that they are radix-2^51 limbs is established
	// by crossCheck below
	switch {
	case et.Size() != ElemSize:
		return fmt.Errorf("field.Element has size %d, expected %d", et.Size(), ElemSize)
	case et.Kind() == reflect.Array && et.Len() == 5 && et.Elem().Kind() == reflect.Uint64:
	case et.Kind() == reflect.Struct && et.NumField() == 5:
		for i := 0; i < 5; i++ {
			f := et.Field(i)
			if f.Type.Kind() != reflect.Uint64 || f.Offset != uintptr(8*i) {
				return fmt.Errorf("field.Element field %d is %s %s at %d", i, f.Name, f.Type, f.Offset)
			}
		}
	default:
		return fmt.Errorf("field.Element (%s) is neither five uint64 fields nor [5]uint64", et)
	}
	pt := reflect.TypeOf(edwards25519.Point{})
	if pt.Kind() != reflect.Struct {
		return fmt.Errorf("Point is a %s, expected a struct", pt.Kind())
	}
	// the four coordinates are found by name (x, y, z, t, or names ending in those
	// letters), in whatever order they are declared; with other names the
	// declaration order X, Y, Z, T is assumed. Either way the value cross-check
	// below (known points with Z = 1 and T = XY != Z) must confirm the reading.
	// Any other field is auxiliary state: accepted when it is pointer-free (it is
	// then carried along as opaque bytes), otherwise the layout is unsupported.
	var elems []reflect.StructField
	hasPtr := false
	for i := 0; i < pt.NumField(); i++ {
		f := pt.Field(i)
		if f.Type.Size() == 0 {
			continue
		}
		if f.Type == et {
			if f.Offset%8 != 0 {
				return fmt.Errorf("Point field %s %s at %d does not match the assumed layout", f.Name, f.Type, f.Offset)
			}
			elems = append(elems, f)
			continue
		}
		if !simplePointers(f.Type) {
			return fmt.Errorf("Point has size %d, expected %d: auxiliary field %s %s cannot be carried along as opaque bytes", pt.Size(), 4*ElemSize, f.Name, f.Type)
		}
		if !pointerFree(f.Type) {
			if skipCrossCheck {
				// the task scheduler's builds read points from several goroutines and
				// cannot run the shallow-copy self-test before the concurrent phase
				return fmt.Errorf("Point has size %d, expected %d: auxiliary field %s %s contains pointers, which the concurrency check does not support", pt.Size(), 4*ElemSize, f.Name, f.Type)
			}
			hasPtr = true
		}
	}
	auxHasPointers = hasPtr
	if len(elems) != 4 {
		return fmt.Errorf("Point has %d coordinate fields", len(elems))
	}
	found := 0
	for _, f := range elems {
		k := strings.Index("xyzt", strings.ToLower(f.Name[len(f.Name)-1:]))
		if k >= 0 {
			pointOff[k] = f.Offset
			found |= 1 << k
		}
	}
	pointNamesUnknown = false
	if found != 15 {
		for k, f := range elems {
			pointOff[k] = f.Offset
		}
		pointNamesUnknown = true
		if skipCrossCheck {
			return fmt.Errorf("Point coordinate fields are not called x, y, z, t and the assumed order cannot be verified without calling the library")
		}
	}
	PointSize = pt.Size()
	auxSpans, auxLen = nil, 0
	covered := make([]bool, PointSize)
	for _, o := range pointOff {
		for i := uintptr(0); i < ElemSize; i++ {
			covered[o+i] = true
		}
	}
	for i := uintptr(0); i < PointSize; {
		if covered[i] {
			i++
			continue
		}
		j := i
		for j < PointSize && !covered[j] {
			j++
		}
		auxSpans = append(auxSpans, [2]uintptr{i, j})
		auxLen += int(j - i)
		i = j
	}
	st := reflect.TypeOf(edwards25519.Scalar{})
	if st.Kind() != reflect.Struct || st.NumField() != 1 || st.Size() != ScalarSize {
		return fmt.Errorf("Scalar layout changed (size %d)", st.Size())
	}
	ft := st.Field(0).Type
	if ft.Kind() != reflect.Array || ft.Len() != 4 || ft.Elem().Kind() != reflect.Uint64 {
		return fmt.Errorf("Scalar field is %s", ft)
	}
	layoutOK = true
	// Cross-check the readers against encodings of known values.
	if err := crossCheck(); err != nil {
		layoutOK = false
		return err
	}
	return nil
}

// GuardLayoutOnly performs the reflect-based layout guard without calling any
// library code (the task scheduler must not perform first use of any part of
// the API before the concurrent phase).
func GuardLayoutOnly() error {
	saved := skipCrossCheck
	skipCrossCheck = true
	defer func() { skipCrossCheck = saved }()
	return Guard()
}

var skipCrossCheck bool

// pointNamesUnknown: the coordinate fields of Point were identified by position only.
var pointNamesUnknown bool

// LimbsOf splits a value below 2^255 into five 51-bit limbs.
func LimbsOf(v *big.Int) Limbs {
	var l Limbs
	mask := new(big.Int).SetUint64(1<<51 - 1)
	t := new(big.Int).Set(v)
	for i := 0; i < 5; i++ {
		l[i] = new(big.Int).And(t, mask).Uint64()
		t.Rsh(t, 51)
	}
	return l
}

// MontgomeryOf returns the Montgomery limbs (k * 2^256 mod l) of a scalar value.
func MontgomeryOf(k *big.Int) ScalarRaw {
	m := new(big.Int).Lsh(k, 256)
	m.Mod(m, L)
	var r ScalarRaw
	mask := new(big.Int).SetUint64(^uint64(0))
	for i := 0; i < 4; i++ {
		r[i] = new(big.Int).And(m, mask).Uint64()
		m.Rsh(m, 64)
	}
	return r
}

func crossCheck() error {
	if skipCrossCheck {
		return nil
	}
	// Element: 2^255-20 = p-1 via SetBytes, value must be p-1.
	b := make([]byte, 32)
	for i := range b {
		b[i] = 0xff
	}
	b[0] = 0xec
	b[31] = 0x7f
	e, err := new(field.Element).SetBytes(b)
	if err != nil {
		return fmt.Errorf("alpha cross-check: %v", err)
	}
	if ElemVal(ElemLimbs(e)).Cmp(new(big.Int).Sub(P, one)) != 0 {
		return fmt.Errorf("alpha cross-check: Element reader disagrees with SetBytes(p-1)")
	}
	b2 := make([]byte, 32)
	b2[0] = 2
	b2[20] = 0x80
	e, _ = new(field.Element).SetBytes(b2)
	want := new(big.Int).Lsh(one, 167)
	want.Add(want, big.NewInt(2))
	if ElemVal(ElemLimbs(e)).Cmp(want) != 0 {
		return fmt.Errorf("alpha cross-check: Element reader disagrees with SetBytes(2^167+2)")
	}
	// Scalar: canonical bytes of 5 and of 2^200+7.
	sb := make([]byte, 32)
	sb[0] = 7
	sb[25] = 1
	s, err := new(edwards25519.Scalar).SetCanonicalBytes(sb)
	if err != nil {
		return fmt.Errorf("alpha cross-check: %v", err)
	}
	want = new(big.Int).Lsh(one, 200)
	want.Add(want, big.NewInt(7))
	if ScalarVal(ScalarLimbs(s)).Cmp(want) != 0 {
		return fmt.Errorf("alpha cross-check: Scalar reader disagrees with SetCanonicalBytes(2^200+7)")
	}
	if pointNamesUnknown {
		// the roles of the four coordinate fields were assumed from their order: the
		// base point must then read as (x : 4/5 : 1 : 4x/5) up to scaling
		r := PointLimbs(edwards25519.NewGeneratorPoint())
		X, Y, Z, T := ElemVal(r.X), ElemVal(r.Y), ElemVal(r.Z), ElemVal(r.T)
		m := func(a, b *big.Int) *big.Int { v := new(big.Int).Mul(a, b); return v.Mod(v, P) }
		if Z.Sign() == 0 || m(Y, big.NewInt(5)).Cmp(m(Z, big.NewInt(4))) != 0 || m(T, Z).Cmp(m(X, Y)) != 0 {
			return fmt.Errorf("alpha cross-check: Point coordinate fields have unknown names and do not read as (X, Y, Z, T) in declaration order")
		}
	}
	if auxLen > 0 {
		if err := auxNeutral(); err != nil {
			return err
		}
	}
	// Point: no value cross-check on purpose. Producing any Point needs the
	// library's field arithmetic; if that is broken the failure must surface
	// as a violation in the checks, not as "cannot observe". The reflect guard
	// above pins the layout (fields x, y, z, t of type field.Element).
	return nil
}

// auxNeutral establishes that the auxiliary state a Point carries is neutral
// when it is all zero: the harness builds points directly in memory (from
// reference values) with zero auxiliary bytes, and that is only sound when
// such a point behaves like one the API produced with the same coordinates.
// A tree where it does not (say, an "initialised" flag set by constructors)
// stays unsupported (INCONCLUSIVE), as every changed layout was before.
func auxNeutral() (err error) {
	defer func() {
		if x := recover(); x != nil {
			err = fmt.Errorf("Point has size %d, expected %d: a point with zeroed auxiliary fields makes the library panic (%v); the auxiliary state cannot be treated as opaque", PointSize, 4*ElemSize, x)
		}
	}()
	bad := func(what string) error {
		return fmt.Errorf("Point has size %d, expected %d: a point with zeroed auxiliary fields behaves differently from an API-produced point with the same coordinates (%s); the auxiliary state cannot be treated as opaque", PointSize, 4*ElemSize, what)
	}
	g := edwards25519.NewGeneratorPoint()
	g2 := new(edwards25519.Point).Add(g, g)
	g3 := new(edwards25519.Point).Add(g2, g)
	enc := g3.Bytes()
	d, e := new(edwards25519.Point).SetBytes(enc)
	if e != nil {
		return nil // broken decoding is the checks' business, not the guard's
	}
	for _, p := range []*edwards25519.Point{g, g2, g3, d, edwards25519.NewIdentityPoint(), new(edwards25519.Point).Negate(g2)} {
		r := PointLimbs(p)
		r.Aux = ""
		q := new(edwards25519.Point)
		SetPointLimbs(q, r)
		if string(p.Bytes()) != string(q.Bytes()) {
			return bad("Bytes")
		}
		if p.Equal(q) != 1 || q.Equal(p) != 1 {
			return bad("Equal")
		}
		a, b := new(edwards25519.Point).Add(p, g), new(edwards25519.Point).Add(q, g)
		if string(a.Bytes()) != string(b.Bytes()) {
			return bad("Add")
		}
		a, b = new(edwards25519.Point).Negate(p), new(edwards25519.Point).Negate(q)
		if string(a.Bytes()) != string(b.Bytes()) {
			return bad("Negate")
		}
		a, b = new(edwards25519.Point).Set(p), new(edwards25519.Point).Set(q)
		if string(a.Bytes()) != string(b.Bytes()) {
			return bad("Set")
		}
		x1, y1, z1, t1 := p.ExtendedCoordinates()
		x2, y2, z2, t2 := q.ExtendedCoordinates()
		if x1.Equal(x2)&y1.Equal(y2)&z1.Equal(z2)&t1.Equal(t2) != 1 {
			return bad("ExtendedCoordinates")
		}
	}
	if auxHasPointers {
		// shallow-copy self-test: the harness copies points bit for bit (like
		// *q = *p), so two points may share what their auxiliary pointers point
		// to. That must be harmless: changing one through the API must not change
		// what the other one answers.
		shallow := func(p *edwards25519.Point) *edwards25519.Point {
			q := new(edwards25519.Point)
			SetPointLimbs(q, PointLimbs(p))
			return q
		}
		for _, mk := range []func() *edwards25519.Point{
			func() *edwards25519.Point { p, _ := new(edwards25519.Point).SetBytes(enc); return p },
			func() *edwards25519.Point { p := new(edwards25519.Point).Add(g2, g); p.Bytes(); return p },
			func() *edwards25519.Point { p := new(edwards25519.Point).Set(d); p.Bytes(); return p },
		} {
			for _, mut := range []func(q *edwards25519.Point){
				func(q *edwards25519.Point) { q.Add(q, g) },
				func(q *edwards25519.Point) { q.Negate(q) },
				func(q *edwards25519.Point) { q.SetBytes(g2.Bytes()) },
				func(q *edwards25519.Point) { q.Set(g) },
				func(q *edwards25519.Point) { q.ScalarBaseMult(edwards25519.NewScalar()) },
			} {
				p := mk()
				want := string(g3.Bytes())
				q := shallow(p)
				q.Bytes()
				mut(q)
				q.Bytes()
				if string(p.Bytes()) != want || p.Equal(g3) != 1 {
					return bad("a bit-copy of a point shares auxiliary memory with it, and changing the copy changed the original")
				}
				p2 := mk()
				q2 := shallow(p2)
				mut(p2)
				p2.Bytes()
				if string(q2.Bytes()) != want || q2.Equal(g3) != 1 {
					return bad("a bit-copy of a point shares auxiliary memory with it, and changing the original changed the copy")
				}
			}
		}
	}
	return nil
}

func mustOK() {
	if !layoutOK {
		panic("alpha: layout guard has not passed")
	}
}

func ElemLimbs(e *field.Element) Limbs {
	mustOK()
	return *(*Limbs)(unsafe.Pointer(e))
}

// pointOff holds the offsets of the fields x, y, z, t of Point (set by Guard).
var pointOff = [4]uintptr{0, ElemSize, 2 * ElemSize, 3 * ElemSize}

func PointLimbs(p *edwards25519.Point) PointRaw {
	mustOK()
	b := unsafe.Pointer(p)
	r := PointRaw{
		X: *(*Limbs)(unsafe.Add(b, pointOff[0])), Y: *(*Limbs)(unsafe.Add(b, pointOff[1])),
		Z: *(*Limbs)(unsafe.Add(b, pointOff[2])), T: *(*Limbs)(unsafe.Add(b, pointOff[3])),
	}
	if auxLen > 0 {
		buf := make([]byte, 0, auxLen)
		for _, sp := range auxSpans {
			buf = append(buf, unsafe.Slice((*byte)(unsafe.Add(b, sp[0])), sp[1]-sp[0])...)
		}
		for _, x := range buf {
			if x != 0 {
				r.Aux = string(buf)
				break
			}
		}
		if auxHasPointers && r.Aux != "" && !keepSeen[r.Aux] {
			keepSeen[r.Aux] = true
			keepAlive = append(keepAlive, *p)
		}
	}
	return r
}

// SetPointLimbs overwrites the coordinates of p in memory.
func SetPointLimbs(p *edwards25519.Point, r PointRaw) {
	b := unsafe.Pointer(p)
	*(*Limbs)(unsafe.Add(b, pointOff[0])) = r.X
	*(*Limbs)(unsafe.Add(b, pointOff[1])) = r.Y
	*(*Limbs)(unsafe.Add(b, pointOff[2])) = r.Z
	*(*Limbs)(unsafe.Add(b, pointOff[3])) = r.T
	if auxLen > 0 {
		k := 0
		full := len(r.Aux) == auxLen
		for _, sp := range auxSpans {
			n := sp[1] - sp[0]
			i := uintptr(0)
			if sp[0]%8 == 0 {
				// whole words first: a pointer is never written byte by byte
				for ; i+8 <= n; i += 8 {
					var w uint64
					if full {
						for j := 7; j >= 0; j-- {
							w = w<<8 | uint64(r.Aux[k+j])
						}
					}
					*(*uint64)(unsafe.Add(b, sp[0]+i)) = w
					k += 8
				}
			}
			for ; i < n; i++ {
				var x byte
				if full {
					x = r.Aux[k]
				}
				*(*byte)(unsafe.Add(b, sp[0]+i)) = x
				k++
			}
		}
	}
}

func ScalarLimbs(s *edwards25519.Scalar) ScalarRaw {
	mustOK()
	return *(*ScalarRaw)(unsafe.Pointer(s))
}

// ElemVal returns sum l_i 2^(51 i) mod p.
func ElemVal(l Limbs) *big.Int {
	v := new(big.Int)
	for i := 4; i >= 0; i-- {
		v.Lsh(v, 51)
		v.Add(v, new(big.Int).SetUint64(l[i]))
	}
	return v.Mod(v, P)
}

// ElemInt returns the unreduced integer sum l_i 2^(51 i).
func ElemInt(l Limbs) *big.Int {
	v := new(big.Int)
	for i := 4; i >= 0; i-- {
		v.Lsh(v, 51)
		v.Add(v, new(big.Int).SetUint64(l[i]))
	}
	return v
}

// MaxLimb returns the largest limb.
func (l Limbs) Max() uint64 {
	m := l[0]
	for _, x := range l[1:] {
		if x > m {
			m = x
		}
	}
	return m
}

func (l Limbs) IsZeroLimbs() bool { return l == Limbs{} }

// ScalarVal returns m * 2^-256 mod l for the Montgomery limbs m.
func ScalarVal(s ScalarRaw) *big.Int {
	v := new(big.Int)
	for i := 3; i >= 0; i-- {
		v.Lsh(v, 64)
		v.Add(v, new(big.Int).SetUint64(s[i]))
	}
	v.Mul(v, RInvL)
	return v.Mod(v, L)
}

// ScalarMontCanonical reports whether the Montgomery limbs are below l (the
// representation invariant of Scalar).
func ScalarMontCanonical(s ScalarRaw) bool {
	v := new(big.Int)
	for i := 3; i >= 0; i-- {
		v.Lsh(v, 64)
		v.Add(v, new(big.Int).SetUint64(s[i]))
	}
	return v.Cmp(L) < 0
}

// PV is the mathematical content of a Point's raw coordinates.
type PV struct{ X, Y, Z, T *big.Int }

func PointVal(r PointRaw) PV {
	return PV{ElemVal(r.X), ElemVal(r.Y), ElemVal(r.Z), ElemVal(r.T)}
}

// GuardedZero is the predicate the library uses to recognise an uninitialised
// Point: the limbs of x and y are all zero.
func (r PointRaw) GuardedZero() bool { return r.X.IsZeroLimbs() && r.Y.IsZeroLimbs() }

func mulmod(a, b *big.Int) *big.Int {
	v := new(big.Int).Mul(a, b)
	return v.Mod(v, P)
}

// Why returns "" for a valid point, or the first validity fact that fails.
func (v PV) Why() string {
	if v.Z.Sign() == 0 {
		return "Z == 0"
	}
	xx, yy, zz, tt := mulmod(v.X, v.X), mulmod(v.Y, v.Y), mulmod(v.Z, v.Z), mulmod(v.T, v.T)
	lhs := new(big.Int).Sub(yy, xx)
	lhs.Mod(lhs, P)
	rhs := mulmod(D, tt)
	rhs.Add(rhs, zz).Mod(rhs, P)
	if lhs.Cmp(rhs) != 0 {
		return "-X^2+Y^2 != Z^2+d*T^2"
	}
	if mulmod(v.X, v.Y).Cmp(mulmod(v.Z, v.T)) != 0 {
		return "X*Y != Z*T"
	}
	return ""
}

func (v PV) Valid() bool { return v.Why() == "" }

// Affine returns (X/Z, Y/Z). Z must be non-zero.
func (v PV) Affine() (x, y *big.Int) {
	zi := new(big.Int).ModInverse(v.Z, P)
	if zi == nil {
		panic("alpha: Affine of Z == 0")
	}
	return mulmod(v.X, zi), mulmod(v.Y, zi)
}

// Encode returns the RFC 8032 encoding of the affine point (x, y), both < p.
func Encode(x, y *big.Int) [32]byte {
	var out [32]byte
	yb := y.Bytes() // big endian
	for i, b := range yb {
		out[len(yb)-1-i] = b
	}
	out[31] |= byte(x.Bit(0)) << 7
	return out
}

// LE32 returns the 32-byte little-endian encoding of v (< 2^256).
func LE32(v *big.Int) [32]byte {
	var out [32]byte
	b := v.Bytes()
	for i, x := range b {
		out[len(b)-1-i] = x
	}
	return out
}

// FromLE interprets b as a little-endian integer.
func FromLE(b []byte) *big.Int {
	be := make([]byte, len(b))
	for i, x := range b {
		be[len(b)-1-i] = x
	}
	return new(big.Int).SetBytes(be)
}
