#!/usr/bin/env python3
"""For every kept seeded change: apply it to /repo itself (git -C /repo apply), run the checks
recorded in its meta.json (quick tier, outputs redirected with VERIF_OUT), undo it
(git -C /repo checkout -- . && git clean), and record the outcome in meta.json."""
import glob, json, os, subprocess, sys
ENV = dict(os.environ, VERIF_OUT="/tmp/confirm_out")
def sh(c, **kw): return subprocess.run(c, shell=True, capture_output=True, text=True, **kw)
assert sh("git -C /repo status --porcelain").stdout.strip() == "", "/repo not clean"
sel = sys.argv[1:]
for f in sorted(glob.glob("/verif/seeded/*/meta.json")):
    m = json.load(open(f))
    if sel and not any(s in m["id"] for s in sel): continue
    d = os.path.dirname(f)
    r = sh(f"git -C /repo apply {d}/patch.diff")
    if r.returncode != 0:
        print(m["id"], "PATCH DOES NOT APPLY", r.stderr[:200]); continue
    res = {}
    try:
        for k in m["checks"]:
            p = k.split()[0]
            if p in res: continue
            c = sh(f"/verif/bin/verif check {p} --tier quick", cwd="/verif", env=ENV, timeout=1800)
            res[p] = c.returncode
    finally:
        sh("git -C /repo checkout -- . && git -C /repo clean -fdq")
    assert sh("git -C /repo status --porcelain").stdout.strip() == ""
    m["confirmed_in_repo"] = {"procedure": "git -C /repo apply patch.diff; bin/verif check <id> --tier quick (VERIF_OUT redirected); git -C /repo checkout -- .", "exit_codes": res}
    json.dump(m, open(f, "w"), indent=1)
    print(m["id"], res, flush=True)
