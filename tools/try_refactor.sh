#!/bin/sh
# try_refactor.sh <name> <patch.diff> : a semantics-preserving change; every check must stay green.
export GOFLAGS=-mod=mod GOPROXY=off GOSUMDB=off GOTOOLCHAIN=local
name=$1; patch=$2
wt=/tmp/wt/ref_$name; out=/tmp/refactor_out/$name
rm -rf "$out"; mkdir -p "$out"
git -C /repo worktree remove --force "$wt" 2>/dev/null
git -C /repo worktree add -q "$wt" HEAD || exit 2
cd "$wt" && git apply "$patch" || { echo "PATCH DOES NOT APPLY"; exit 2; }
go build ./... && go build -tags purego ./... || echo "BUILD FAILS"
go test -count=1 . ./field >"$out/suite.txt" 2>&1 && echo "suite: pass" || echo "suite: FAIL"
for p in C01 C05 C09 C11 C12 C14 C15 C19 C20 C18; do
  VERIF_REPO="$wt" VERIF_OUT="$out" /verif/bin/verif check $p --tier quick >"$out/check_$p.txt" 2>&1
  code=$?
  echo "  $p exit=$code $(grep -E '^(violation detail|INCONCLUSIVE)' "$out/check_$p.txt" | head -2 | cut -c1-220)"
done
cd /; git -C /repo worktree remove --force "$wt"
