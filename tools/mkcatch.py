#!/usr/bin/env python3
"""Regenerates the catch matrix of DESIGN.md section 13 from /verif/seeded/*/meta.json."""
import glob, json, re
rows = []
for f in sorted(glob.glob('/verif/seeded/*/meta.json')):
    m = json.load(open(f))
    first = (m['needs_to_manifest'].splitlines() or [''])[0]
    first = re.sub(r'^#?\s*m\d+\s*[-–(][^)]*\)?\s*:?\s*', '', first).strip()
    first = re.sub(r'^#?\s*m\d+\s*-\s*', '', first)
    caught = ', '.join(f"{k} {v['tier']}: {'VIOLATION' if v['exit']==1 else ('missed' if v['exit']==0 else 'INCONCLUSIVE')}" for k, v in m['checks'].items())
    oracle = ''
    for l in m.get('check_output', []):
        mo = re.search(r'oracle=(\S+)', l)
        if mo:
            oracle = mo.group(1); break
    note = m.get('strengthening', '')
    rows.append(f"| {m['id']} | {first[:120]} | {caught} | {oracle} | {note} |")
table = "| seeded change | what it is | checks run against it | first oracle | framework change it prompted |\n|---|---|---|---|---|\n" + "\n".join(rows)
own = json.load(open('/verif/seeded/own_wave1_results.json'))
orow = []
for r in own:
    res = ', '.join(f"{k}:{'caught' if v['exit']==1 else ('green' if v['exit']==0 else 'exit2')}" for k, v in r['checks'].items())
    orow.append(f"| {r['name']} | {r['suite']} | {res} |")
otable = "| own mutant (tools/mutants/wave1.py) | existing suite | quick checks |\n|---|---|---|\n" + "\n".join(orow)
s = open('/verif/DESIGN.md').read()
b, e = '<!-- CATCH-BEGIN -->', '<!-- CATCH-END -->'
new = b + "\n\n" + table + "\n\n" + otable + "\n\n" + e
if b in s:
    s = s[:s.index(b)] + new + s[s.index(e) + len(e):]
else:
    s += "\n" + new + "\n"
open('/verif/DESIGN.md', 'w').write(s)
print(len(rows), "seeded,", len(orow), "own")
