#!/bin/sh
# try_seeded.sh <name> <patch.diff> <demo_test.go|-> <demo_dir(. or field)> <tier> <prop> [<prop>...]
# Applies a seeded change in a scratch worktree of /repo (never in /repo),
# confirms it builds, passes the existing suite and fails its demonstration,
# then runs the given checks against it. Removes the worktree afterwards.
export GOFLAGS=-mod=mod GOPROXY=off GOSUMDB=off GOTOOLCHAIN=local
name=$1; patch=$2; demo=$3; ddir=$4; tier=$5; shift 5
wt=/tmp/wt/eval_$name
out=/tmp/seeded_out/$name
rm -rf "$out"; mkdir -p "$out"
git -C /repo worktree remove --force "$wt" 2>/dev/null
git -C /repo worktree add -q "$wt" HEAD || exit 2
cd "$wt" || exit 2
if ! git apply "$patch"; then echo "PATCH DOES NOT APPLY"; git -C /repo worktree remove --force "$wt"; exit 2; fi
if go build ./... && go vet ./... >/dev/null 2>&1; then echo "builds: yes"; else echo "builds: NO"; fi
if go test -count=1 ./... >"$out/suite.txt" 2>&1; then echo "suite: pass"; else echo "suite: FAIL"; tail -5 "$out/suite.txt"; fi
if [ "$demo" != "-" ]; then
  t=$(grep -o 'func TestSeeded[0-9A-Za-z_]*' "$demo" | head -1 | sed 's/func //')
  cp "$demo" "$ddir/zz_seeded_demo_test.go"
  if go test -count=1 -run "^$t\$" "./$ddir" >"$out/demo_with.txt" 2>&1; then echo "demo with change: PASS (unexpected)"; else echo "demo with change: fails (expected)"; fi
  # (no git stash: the stash stack is shared by all worktrees of /repo)
  git apply -R "$patch"
  if go test -count=1 -run "^$t\$" "./$ddir" >"$out/demo_without.txt" 2>&1; then echo "demo without change: passes (expected)"; else echo "demo without change: FAILS (unexpected)"; fi
  git apply "$patch"
  rm -f "$ddir/zz_seeded_demo_test.go"
fi
for p in "$@"; do
  VERIF_REPO="$wt" VERIF_OUT="$out" /verif/bin/verif check "$p" --tier "$tier" >"$out/check_$p.txt" 2>&1
  code=$?
  echo "check $p ($tier): exit=$code $(grep -c '^VIOLATION' "$out/check_$p.txt") violation line(s)"
  grep -E '^(violation detail|INCONCLUSIVE|minimised)' "$out/check_$p.txt" | cut -c1-260 | head -6
done
cd /; git -C /repo worktree remove --force "$wt"
