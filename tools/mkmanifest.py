#!/usr/bin/env python3
"""Regenerates /verif/MANIFEST.json (kept in git). Edit ENABLED when a check
is added or withdrawn; the per-property texts live here."""
import json

ENABLED = ["C01", "C05", "C09", "C11", "C12", "C14", "C15", "C18", "C19", "C20"]

TB = ("trusted base: the observation channel /verif/sim/alpha (unsafe reads of Element/Point/Scalar memory, "
      "guarded by a reflect layout check and cross-checked against known encodings; a changed layout exits 2), "
      "math/big, the curve constants p, l, d written out in the harness, the Go toolchain. "
      "Seeded sampling: a clean batch is evidence, not proof.")

CHECKS = {
    "C01": dict(
        cat="exploration", ref="DESIGN.md §4.1", engine="history-sim",
        technique="deterministic simulation: seeded operation histories over reused/aliased slots, receiver-state and cold-table fault classes, big.Int reference oracle on pre-state snapshots",
        text="Seeded histories (>= 40% scalar-multiplication steps) over a pool of long-lived slots give every one of the five entry points "
             "receivers with a past (zero value, identity, used, aliased to one or several inputs), operands in representations produced by "
             "earlier operations (Z != 1, torsion components, non-canonical limb forms), n from 0 to 12, cold and warm basepoint tables. Each "
             "result is read from raw memory and compared with sum [k_i]P_i computed by an independent big.Int model from the pre-state snapshot. "
             "Decides receiver-independence, aliasing, n=0 and exactness on the scalars visited; it samples, so it does not claim all l scalars.",
        note=TB),
    "C05": dict(
        cat="exploration", ref="DESIGN.md §4.2", engine="history-sim",
        technique="deterministic simulation: seeded histories producing projective/limb representations; state invariant after every step against canonical encoding of the slot's own raw coordinates",
        text="After every step of a seeded history every changed initialised Point slot (every slot in 30% of the runs) is encoded with Bytes and "
             "compared with the RFC 8032 encoding computed in big.Int from that slot's own raw coordinates, then decoded again and compared; accepted "
             "non-canonical inputs are checked to decode to the point they name and to re-encode canonically. Representations (Z != 1, limbs >= 2^51, "
             "small-order points) arise from operation chains and scaled coordinate imports, which is the history dimension of the property.",
        note=TB),
    "C09": dict(
        cat="exploration", ref="DESIGN.md §4.3", engine="history-sim",
        technique="deterministic simulation: seeded field-operation histories (both build configurations) reaching unreduced representations, plus a seeded objective-guided search (hill-climb over histories maximising limb sizes); per-step GF(p) reference oracle and 2^52 limb-bound invariant",
        text="field.Element has no raw constructor, so every representation other than SetBytes output is the product of an operation chain; the check "
             "runs seeded histories over 8-16 Element slots (half biased to carry-free chains that maximise limbs; one run in 64 is a hill-climb over histories whose objective is limb size, ending in a tail that feeds the largest representations found to all nine operations), under the default (assembly) and the "
             "purego build, compares each of the nine operations with GF(p) arithmetic on the pre-state values and monitors the documented 2^52 limb bound on "
             "every written element (also inside Points in the other checks). A search over reachable representations, not a bound proof.",
        note=TB + " The universally quantified overflow obligation is an interval-analysis question and is not claimed."),
    "C11": dict(
        cat="fault_enumeration", ref="DESIGN.md §4.4", engine="history-sim",
        technique="deterministic simulation: exhaustive enumeration of aliasing partitions per method on values from seeded histories; differential execution against private copies plus bit-level frame invariant",
        text="Every exported method x every set partition of {receiver} U {same-typed pointer arguments} (plus multi-scalar shapes: receiver at each "
             "index, repeated points/scalars, n = 1..4; coordinate quadruples with repeated pointers; byte input aliasing an earlier Bytes result) is executed on "
             "operand values taken from a seeded history; the aliased call must equal, as values, the same call on private bit-copies, and every slot outside the "
             "contractual write set (receiver; Swap's argument) must be bit-identical afterwards, including the caller's whole byte buffer around an input window "
             "and the whole backing arrays (spare capacity included) of the slices given to multi-scalar calls; term lists up to 1100 terms with the receiver in "
             "the tail. Partitions are enumerated exhaustively, values are sampled.",
        note=TB),
    "C12": dict(
        cat="exploration", ref="DESIGN.md §4.5", engine="history-sim",
        technique="deterministic simulation: seeded histories with all fault kinds (rejected setters, misuse panics, adversarial imports, zero-value receivers); reachability invariant checked in big.Int after every step",
        text="The most general seeded histories (all operations, all fault kinds injected mid-history, reused and zero-value receivers, coordinate imports "
             "of scaled, sign-flipped, perturbed and zero quadruples in several limb forms, quadruples computed to satisfy exactly one of the two relations, "
             "related operands); after every step every changed Point slot - and the receiver of every successful operation - must be the guarded zero value "
             "(reachable only by declaration or Set from one) or satisfy Z != 0, the curve equation and XY = ZT evaluated in big.Int on raw limbs. Found the two "
             "defects now repaired (see known_findings.txt).",
        note=TB),
    "C14": dict(
        cat="fault_enumeration", ref="DESIGN.md §4.6", engine="history-sim",
        technique="deterministic simulation with fault injection: enumeration of seven setters x rejected-input fault kinds x receiver states inside seeded histories; conditional bit-level atomicity oracle",
        text="Seven fallible setters x {every wrong-length class, nil, each semantically invalid sub-kind} x receiver state {zero value, used}, enumerated "
             "after a seeded history prefix and also injected at random points of general histories. The oracle is conditional on what the implementation "
             "reports: error => nil result, receiver and every other slot bit-identical to the pre-state snapshot, input unchanged; success => the receiver is "
             "returned, input unchanged. Every setter must have produced observed errors of every kind that exists for it, else the check is inconclusive.",
        note=TB + " Which inputs are accepted is C04/C08/C13 (not claimed); this check reasons from the error actually returned."),
    "C15": dict(
        cat="fault_enumeration", ref="DESIGN.md §4.7", engine="history-sim",
        technique="deterministic simulation with fault injection: enumeration of zero-value Points at every input position and of length mismatches inside seeded histories; panic observed by recover",
        text="A zero-value Point at every Point-typed input position of every operation (every non-empty subset of positions for fixed-arity operations, "
             "every index of n = 1..5 multi-scalar calls, receiver aliased to the bad operand), all unequal slice-length pairs <= 4, after a seeded history "
             "prefix and at random points of histories; the call must panic. Conversely every pure-receiver operation is run on a zero-value receiver with valid "
             "inputs and must not panic. The operation table is closed by reflection over the exported methods.",
        note=TB),
    "C18": dict(
        cat="exploration", ref="DESIGN.md §4.8", engine="task-scheduler",
        technique="deterministic simulation: seeded scheduler deciding every context switch at statement-level yield points injected by overlay (2-129 tasks sharing points, scalars, field elements, byte buffers and term slices; cold processes and seeded pre-rolls); sequential-equivalence, per-task exactly-once and race-detector oracles under the same schedules",
        text="Real goroutines whose interleaving is decided by a seeded scheduler (random, PCT-style and sync-focused policies) at statement granularity and "
             "between the atomic operations of one statement (yield points spliced into a build-time copy of both packages; blocking of sync.Once/Mutex/RWMutex "
             "simulated incl. writer preference), 2-8 tasks running operations from the whole API from a cold process, default and purego builds: results equal "
             "the sequential re-execution and a sequential cold reference process; argument-independent first-use code (statements that run cold but neither warm "
             "nor on fresh arguments) is executed exactly as often as sequentially; a battery reading every entry of the lazily built tables gives the reference "
             "results; shared arguments unchanged; no deadlock/livelock; the same schedules are replayed under -race with a hand-off the detector cannot see.",
        note=TB + " Schedules are sampled (PCT-style and random), not enumerated."),
    "C19": dict(
        cat="exploration", ref="DESIGN.md §4.9", engine="history-sim",
        technique="deterministic simulation with fault injection: histories interleaved with scribble faults on every previously returned value, forced collections (pool eviction) and floods of thousands of distinct inputs; frame/package-state/overlap invariants and re-execution probes (also from another receiver state)",
        text="Every value handed back by the library is kept in a ledger and later overwritten (raw memory and public mutators) at arbitrary points of a "
             "seeded history; across each mutation caller slots, other returned values and a raw snapshot of every package-level variable must be bit-identical; "
             "returned values must not overlap each other or caller storage; earlier calls re-issued on bit-copies of their recorded operands must give identical "
             "values; constructors must keep returning identity/base/zero.",
        note=TB + " The package-state snapshot comes from an accessor generated into the build by overlay (tag verif)."),
    "C20": dict(
        cat="exploration", ref="DESIGN.md §4.10", engine="history-sim",
        technique="deterministic simulation: the same seeds replayed under the default (amd64 assembly) and purego builds; step-by-step transcript comparison as values plus limb-bound flag",
        text="The simulator is built twice from the working tree (default, -tags purego); both execute the same seeds of the field-history and the general "
             "point/scalar workloads and their per-step value transcripts (values of written slots, returned bytes/ints/errors, limb-bound flag) must be identical; "
             "the first differing step is reported with a replay file that runs the trace under both builds.",
        note=TB + " Reachable representations only; arm64 assembly cannot run here."),
}

NA = {
    "C02": "pure function of two input points: no schedule, state, fault or history can change P+Q; deciding it is input sampling/enumeration against the addition law (differential testing or algebra), not simulation. The operations run constantly as workload; no verdict is issued.",
    "C03": "2-safety property over pairs of executions about timing-relevant behaviour (branches, addresses, variable-latency operands), which a functional simulator cannot observe; nothing in it depends on schedule or faults. Needs a leakage model / trace comparison, a different technique family.",
    "C04": "pure function of a byte string (accept/reject and decoded point); the receiver's past is covered by C14. Needs an independent square-root oracle over sampled inputs: input generation, not simulation.",
    "C06": "pure predicate of two input points; no state, schedule or fault dimension.",
    "C07": "pure functions on a type with a unique representation (every Scalar is < l in one Montgomery form), so there is not even a representation-through-history facet.",
    "C08": "pure functions of byte strings; the accept-set boundary is an input-space question (the atomicity of failing calls is C14, claimed).",
    "C10": "pure functions/predicates of one field value; the representation facet of field arithmetic is claimed under C09, the remaining clauses are input-space clauses.",
    "C13": "pure function of four field elements; its known defect (Z = 0 accepted) was also a reachability problem and was found and repaired through C12. The exact accept set over p^4 quadruples is not something a simulator decides.",
    "C16": "pure function of (u, v); no concurrency, time, I/O or history for it to depend on.",
    "C17": "pure function of one point; no concurrency, time, I/O or history for it to depend on.",
}

ENGINES = [
    {"name": "history-sim", "path": "/verif/sim/hist",
     "serves_properties": [p for p in ["C01", "C05", "C09", "C11", "C12", "C14", "C15", "C19", "C20"] if p in ENABLED],
     "kind_free_text": "deterministic seeded simulation of operation histories over a world of reused, aliasable slots with fault injection (rejected inputs, misuse, zero-value receivers, adversarial imports, scribbles on returned values, forced garbage collection = pool eviction, floods of distinct inputs, build configuration); oracles: big.Int reference models, bit-level frame invariant, differential execution"},
]
if "C18" in ENABLED:
    ENGINES.append({"name": "task-scheduler", "path": "/verif/sim/sched", "serves_properties": ["C18"],
                    "kind_free_text": "seeded scheduler over real goroutines parked at statement-level yield points injected by go build -overlay; sync gates; race detector under controlled schedules"})

checks = []
for pid in sorted(ENABLED):
    c = CHECKS[pid]
    checks.append({
        "property_id": pid,
        "quick_cmd": f"./bin/verif check {pid} --tier quick",
        "thorough_cmd": f"./bin/verif check {pid} --tier thorough",
        "evidence_file": f"/verif/evidence/{pid}.json",
        "replay_cmd_template": "./bin/verif replay {path}",
        "engine": c["engine"],
        "level_claimed": {"category": c["cat"], "text": c["text"], "design_ref": c["ref"]},
        "level_note": c["note"],
        "technique": c["technique"],
    })

na = [{"property_id": k, "reason": v} for k, v in sorted(NA.items())]
for pid in sorted(CHECKS):
    if pid not in ENABLED:
        na.append({"property_id": pid, "reason": "claimed in DESIGN.md but its check is not built/registered yet; will move to checks when it is"})
na.sort(key=lambda x: x["property_id"])

m = {
    "version": 1,
    "setup_cmd": "sh /verif/setup.sh",
    "hooks": {
        "guard": "verif",
        "enable": "no hook is committed to /repo: instrumentation (statement-level yield points, sync gates, package-state accessor) is generated at check time from /repo's working tree by /verif/bin/instrument into a scratch directory and injected with `go build -tags verif -overlay <scratch>/overlay.json`; generated in-package files carry //go:build verif",
        "baseline_off_cmd": "cd /repo && GOFLAGS=-mod=mod GOPROXY=off GOSUMDB=off go test -vet=off -count=1 -timeout 25m ./...",
        "source_commits": [],
        "add_only": True,
    },
    "engines": ENGINES,
    "checks": checks,
    "not_applicable": na,
    "notes": "Technique family: deterministic simulation with fault injection. Exit codes: 0 held, 1 VIOLATION (with replay file), 2 INCONCLUSIVE (build failure, layout guard, unreached fault kind, non-replayable failure) - never degraded to 0 and never dressed as a violation. VERIF_SEED selects the base seed. /repo carries two fix: commits (see known_findings.txt).",
}
json.dump(m, open("/verif/MANIFEST.json", "w"), indent=1)
print("MANIFEST.json written:", len(checks), "checks,", len(na), "not_applicable")
