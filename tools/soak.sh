#!/bin/sh
# soak.sh <tier> <seed>... : every check on the unchanged tree under several base seeds;
# evidence/replays go to /tmp/soak so that /verif/evidence is not disturbed.
tier=$1; shift
for seed in "$@"; do
  for p in C01 C05 C09 C11 C12 C14 C15 C18 C19 C20; do
    VERIF_OUT=/tmp/soak VERIF_SEED=$seed /verif/bin/verif check $p --tier $tier > /tmp/soak_$p_$seed.txt 2>&1
    echo "seed=$seed $p exit=$? $(tail -1 /tmp/soak_$p_$seed.txt | cut -c1-150)"
  done
done
