#!/bin/sh
# soak.sh <tier> <seed>... : every check on the unchanged tree under several base seeds;
# evidence/replays go to a scratch directory so that /verif/evidence is not disturbed.
# Honours VERIF_HOME (frozen snapshot, e.g. under `vp run`): VERIF_HOME=$PWD sh setup.sh first.
H=${VERIF_HOME:-/verif}
O=${SOAK_OUT:-/tmp/soak}
mkdir -p "$O"
tier=$1; shift
for seed in "$@"; do
  for p in ${SOAK_CHECKS:-C01 C05 C09 C11 C12 C14 C15 C18 C19 C20}; do
    VERIF_HOME=$H VERIF_OUT=$O VERIF_SEED=$seed "$H/bin/verif" check $p --tier $tier > "$O/soak_${p}_$seed.txt" 2>&1
    echo "seed=$seed $p exit=$? $(tail -1 "$O/soak_${p}_$seed.txt" | cut -c1-150)"
  done
done
