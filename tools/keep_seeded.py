#!/usr/bin/env python3
"""keep_seeded.py <name> <property> <patch> <demo|-> <demo_dir> <md|-> <tier> <check>...
Runs tools/try_seeded.sh and, if the change is confirmed (builds, suite passes, demo
fails with / passes without), stores it under /verif/seeded/<name>/ with meta.json."""
import json, os, re, shutil, subprocess, sys
name, prop, patch, demo, ddir, md, tier = sys.argv[1:8]
checks = sys.argv[8:]
r = subprocess.run(["/verif/tools/try_seeded.sh", name, patch, demo, ddir, tier] + checks, capture_output=True, text=True)
out = r.stdout
print(out, end="")
confirmed = ("builds: yes" in out and "suite: pass" in out and
             (demo == "-" or ("demo with change: fails (expected)" in out and "demo without change: passes (expected)" in out)))
res = {}
for m in re.finditer(r"check (\S+) \((\w+)\): exit=(\d+) (\d+) violation", out):
    res[m.group(1)] = {"tier": m.group(2), "exit": int(m.group(3)), "violation_lines": int(m.group(4))}
details = [l for l in out.splitlines() if l.startswith(("violation detail", "minimised", "INCONCLUSIVE"))]
if not confirmed:
    print("NOT CONFIRMED - not kept")
    sys.exit(1)
d = f"/verif/seeded/{name}"
os.makedirs(d, exist_ok=True)
shutil.copy(patch, f"{d}/patch.diff")
if demo != "-":
    shutil.copy(demo, f"{d}/demo_test.go.txt")
needs = ""
if md != "-" and os.path.exists(md):
    needs = open(md).read()
    shutil.copy(md, f"{d}/description.md")
meta = {
    "id": name, "breaks_property": prop,
    "demo": {"file": "demo_test.go.txt (copy to %s as *_test.go)" % ("the repository root" if ddir == "." else ddir), "fails_with_change": demo != "-", "passes_without": demo != "-"},
    "needs_to_manifest": needs.strip()[:1500],
    "confirmed": {"compiles": True, "existing_suite_passes": True},
    "what_i_ran": f"tools/try_seeded.sh in a scratch worktree of /repo (git apply patch.diff; go build/vet; go test ./...; demo with/without; VERIF_REPO=<worktree> bin/verif check <id> --tier {tier}); worktree removed afterwards",
    "checks": res, "check_output": details[:12],
}
if os.path.exists(f"{d}/meta.json"):
    old = json.load(open(f"{d}/meta.json"))
    for k, v in old.items():
        if k not in meta or (k in ("needs_to_manifest", "demo") and not needs and demo == "-"):
            meta[k] = v
json.dump(meta, open(f"{d}/meta.json", "w"), indent=1)
print("kept in", d)
