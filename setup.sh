#!/bin/sh
# setup_cmd: builds the driver and the instrumenter offline, and warms the
# build cache (plain, purego, race std) so that checks rebuild quickly.
set -e
export GOFLAGS=-mod=mod GOPROXY=off GOSUMDB=off GOTOOLCHAIN=local
H=${VERIF_HOME:-/verif}
cd "$H/sim"
mkdir -p "$H/bin" "$H/evidence" "$H/replays"
go build -o "$H/bin/verif" ./cmd/verif
go build -o "$H/bin/instrument" ./cmd/instrument
go build -o "$H/bin/mutgen" ./cmd/mutgen
# warm caches (outputs discarded)
t=$(mktemp -d)
go build -o "$t/a" ./cmd/edsim
go build -tags purego -o "$t/b" ./cmd/edsim
go build -race -o "$t/c" ./cmd/edsim 2>/dev/null || true
rm -rf "$t"
echo setup ok
