#!/bin/sh
# setup_cmd: builds the driver and the instrumenter offline, and warms the
# build cache (plain, purego, race std) so that checks rebuild quickly.
set -e
export GOFLAGS=-mod=mod GOPROXY=off GOSUMDB=off GOTOOLCHAIN=local
cd /verif/sim
mkdir -p /verif/bin /verif/evidence /verif/replays
go build -o /verif/bin/verif ./cmd/verif
if [ -d ./cmd/instrument ]; then go build -o /verif/bin/instrument ./cmd/instrument; fi
# warm caches (outputs discarded)
t=$(mktemp -d)
go build -o "$t/a" ./cmd/edsim
go build -tags purego -o "$t/b" ./cmd/edsim
go build -race -o "$t/c" ./cmd/edsim 2>/dev/null || true
rm -rf "$t"
echo setup ok
